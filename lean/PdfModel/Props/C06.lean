import PdfModel.Lemmas.Crypt

/-!
# C06 — encrypted documents yield their plaintext with either password, and only then

The theorems are about the model `Model/Crypt.lean` of `pdf/src/crypt.rs` (after the repairs of D17 and
D18) and of the places where decryption is invoked; the statement side is `Spec/StdSecurity.lean`, the
standard's algorithms written as a *writer* (and as the reader-side Algorithms 6, 7, 2.A). The
correspondence check for C06 ties the model to `Rc4`, `Decoder::{from_password, decrypt}` and the file
loader of the current source tree.

Statement vocabulary (`Exempt`, `UCheck`, `Matches`, `StoredAs`, `EncVal`, `WrittenRc4`, `WrittenU56`,
`WrittenO56`) is at the end of `Spec/StdSecurity.lean`; helper lemmas are in `Lemmas/Crypt.lean`.

Hypotheses about third-party code, explicit in every theorem that needs them:
`hp : PrimsAgree P H` — MD5, SHA-256/384/512, the AES block function and SASLprep are functions (`H`);
`hw : H.WF` — their output sizes, and AES decryption inverts AES encryption for 16 / 32 byte keys.
RC4 is concrete.
-/

namespace Crypt
open StdSec


/-! ## RC4 -/

/-- **RC4 is an involution**, for every key and every data: with a key `Rc4::new` accepts (1..256 bytes)
    encrypting twice gives the data back; with any other key both calls panic. -/
theorem rc4_involution (key data : Bytes) :
    (rc4Encrypt key data).bind (rc4Encrypt key) = if validKey key then .ok data else .panic := by
  by_cases h : validKey key
  · rw [if_pos h, rc4Encrypt_eq h, Out.bind_ok, rc4Encrypt_eq h, rc4_rc4]
  · rw [if_neg h, rc4Encrypt_panic h]; rfl

/-- the same, as an implication on results -/
theorem rc4_involution_result (key data c : Bytes) (h : rc4Encrypt key data = .ok c) : rc4Encrypt key c = .ok data := by
  by_cases hv : validKey key
  · rw [rc4Encrypt_eq hv] at h; cases h; rw [rc4Encrypt_eq hv, rc4_rc4]
  · rw [rc4Encrypt_panic hv] at h; cases h

/-- RC4 keeps the length (so an empty string stays empty and `/Length` stays right) -/
theorem rc4_keeps_length (key data c : Bytes) (h : rc4Encrypt key data = .ok c) : c.length = data.length := by
  by_cases hv : validKey key
  · rw [rc4Encrypt_eq hv] at h; cases h; exact rc4_length _ _
  · rw [rc4Encrypt_panic hv] at h; cases h

/-- the model's cipher is RC4: the classic test vectors ("Key"/"Plaintext", "Wiki"/"pedia") -/
example : rc4Encrypt [0x4b, 0x65, 0x79] [0x50, 0x6c, 0x61, 0x69, 0x6e, 0x74, 0x65, 0x78, 0x74]
    = .ok [0xbb, 0xf3, 0x16, 0xe8, 0xd9, 0x40, 0xaf, 0x0a, 0xd3] := by decide +kernel
example : rc4Encrypt [0x57, 0x69, 0x6b, 0x69] [0x70, 0x65, 0x64, 0x69, 0x61] = .ok [0x10, 0x21, 0xbf, 0x04, 0x20] := by
  decide +kernel

/-! ## Per-object decryption inverts the standard's encryption (Algorithm 1 / 1.A) -/

/-- **decrypt ∘ encrypt, RC4 (V2)**: for every file key the decoder holds (any length up to 16, in
    particular 5..16), every object and generation number (also beyond 3 / 2 bytes), every data incl. empty. -/
theorem decrypt_encrypt_v2 {P : Prims} {H : Hashes} (hp : PrimsAgree P H) (hw : H.WF) (d : Decoder) (fileKey : Bytes)
    (hm : d.method = .v2) (hk : d.keyOf = .ok fileKey) (id gen : Nat) (iv data : Bytes) (hx : ¬ Exempt d id gen) :
    decrypt P d id gen (encryptObject H .rc4 fileKey id gen iv data) = .ok data := by
  rw [decrypt_v2 P d id gen _ hx hm]
  simp only [encryptObject, objectKey]
  simp only [hk, Out.bind_ok, hp.md5, idBytes_eq, genBytes_eq]
  exact rc4_roundtrip_aux _ data (by unfold validKey; rw [List.length_take, hw.md5_len]; omega)

/-- **decrypt ∘ encrypt, AES-128 (AESV2)**: every object / generation number, every length incl. 0 and
    block-aligned (a whole padding block), every 16 byte IV. -/
theorem decrypt_encrypt_aesv2 {P : Prims} {H : Hashes} (hp : PrimsAgree P H) (hw : H.WF) (d : Decoder) (fileKey : Bytes)
    (hm : d.method = .aesv2) (hk : d.keyOf = .ok fileKey) (hkl : fileKey.length = 16)
    (id gen : Nat) (iv data : Bytes) (hiv : iv.length = 16) (hx : ¬ Exempt d id gen) :
    decrypt P d id gen (encryptObject H .aes128 fileKey id gen iv data) = .ok data := by
  rw [decrypt_aesv2 P d id gen _ hx hm]
  simp only [encryptObject, objectKey]
  have hks : min d.keySize 16 = 16 := by
    unfold Decoder.keyOf at hk
    split at hk
    · cases hk; rw [List.length_take] at hkl; omega
    · cases hk
  refine (@ite_isEmpty_of_length_pos _ _ (by rw [List.length_append, hiv]; omega) _ _ _).trans ?_
  simp only [hk, Out.bind_ok, hp.md5, idBytes_eq, genBytes_eq, sAlT, hks, hkl]
  rw [if_neg (by rw [List.length_append, hiv]; omega)]
  rw [List.take_left' hiv, List.drop_left' hiv]
  exact cbcDecryptPkcs7_encrypt hp hw 16 _ iv data (by rw [List.length_take, hw.md5_len]; rfl) (Or.inl rfl) hiv

/-- **decrypt ∘ encrypt, AES-256 (AESV3, Algorithm 1.A)** — true of the code after the repair of D17 (the
    whole 32 byte key is used). -/
theorem decrypt_encrypt_aesv3 {P : Prims} {H : Hashes} (hp : PrimsAgree P H) (hw : H.WF) (d : Decoder) (fileKey : Bytes)
    (hm : d.method = .aesv3) (hk : d.key = fileKey) (hkl : fileKey.length = 32)
    (id gen : Nat) (iv data : Bytes) (hiv : iv.length = 16) (hx : ¬ Exempt d id gen) :
    decrypt P d id gen (encryptObject H .aes256 fileKey id gen iv data) = .ok data := by
  rw [decrypt_aesv3 P d id gen _ hx hm]
  simp only [encryptObject, objectKey]
  refine (@ite_isEmpty_of_length_pos _ _ (by rw [List.length_append, hiv]; omega) _ _ _).trans ?_
  simp only [hk]
  rw [if_neg (by rw [List.length_append, hiv]; omega)]
  rw [List.take_left' hiv, List.drop_left' hiv]
  exact cbcDecryptPkcs7_encrypt hp hw 32 _ iv data hkl (Or.inr rfl) hiv

/-! ## The exemptions -/

/-- **the encryption dictionary is untouched**: whatever the method, key and data -/
theorem encrypt_dict_untouched (P : Prims) (d : Decoder) (id gen : Nat) (data : Bytes)
    (h : d.encryptRef = some (id, gen)) : decrypt P d id gen data = .ok data := by
  unfold decrypt; rw [if_pos h]

/-- **the metadata object is untouched when `EncryptMetadata` is false** -/
theorem metadata_untouched (P : Prims) (d : Decoder) (id gen : Nat) (data : Bytes)
    (hem : d.encryptMetadata = false) (h : d.metadataRef = some (id, gen)) : decrypt P d id gen data = .ok data := by
  unfold decrypt
  split
  · rfl
  · rw [if_pos ⟨by simp [hem], h⟩]

/-! ## Passwords, revisions 2–4: `from_password` decides exactly what Algorithms 6 and 7 decide -/


/-- **`from_password`, revisions 2–4, is Algorithms 6 + 7.** For every encryption dictionary whose
    `V`/`Length`/`CF` entries select an `n`-byte key (1 ≤ n ≤ 16, i.e. in particular 40..128 bits), every
    document id and every password: the model accepts exactly when the standard's authentication does, the
    decoder holds the Algorithm 2 digest (whose first `n` bytes are the file key), and a password both
    algorithms reject yields `InvalidPassword` — never another error, never a panic. The owner path of the
    code applies the twenty RC4 passes in the order 0…19 where Algorithm 7 says 19…0: `rc4Chain_reverse`. -/
theorem from_password_rc4 {P : Prims} {H : Hashes} (hp : PrimsAgree P H) (hw : H.WF) (d : CryptDict) (id pass : Bytes)
    (n : Nat) (m : Method) (hsel : selectMethod d = .ok (8 * n, m)) (hn : 1 ≤ n ∧ n ≤ 16) (hr : 2 ≤ d.r ∧ d.r ≤ 4) :
    fromPassword P d id pass = .ok (match authenticate H d.r n d.o d.u d.p id d.encryptMetadata pass with
      | some dg => .decoder (Decoder.mk' dg n m (d.encryptMetadata || decide (d.r < 4)))
      | none => .invalidPassword) := by
  have hlen : ∀ pw, ((alg2Digest H d.r n d.o d.p id d.encryptMetadata pw).take n).length = n := by
    intro pw; rw [List.length_take, alg2Digest_length hw]; omega
  have hvalid : ∀ pw, validKey ((alg2Digest H d.r n d.o d.p id d.encryptMetadata pw).take n) := by
    intro pw; unfold validKey; rw [hlen]; omega
  have hwk : validKey (alg3Key H d.r n pass) := by
    unfold validKey alg3Key
    have : ((if d.r ≥ 3 then iter H.md5 50 (H.md5 (pad32 pass)) else H.md5 (pad32 pass))).length = 16 := by
      by_cases h3 : d.r ≥ 3
      · rw [if_pos h3]; exact iter_length hw.md5_len _ _ (hw.md5_len _)
      · rw [if_neg h3]; exact hw.md5_len _
    rw [List.length_take, this]; omega
  unfold fromPassword
  rw [hsel, Out.bind_ok]
  simp only []
  rw [if_neg (by omega), if_pos (by omega)]
  unfold fromPasswordRc4
  simp only [show 8 * n / 8 = n by omega]
  rw [if_neg (by omega), if_neg (by omega)]
  simp only [keyDerivUser_eq hp d.r n hn.2, Out.bind_ok, Nat.min_eq_left hn.2,
    checkPasswordRc4_eq hp hw d.r d.u id _ (hvalid _), keyDerivOwner_eq hp hw d.r n hn.2]
  unfold authenticate
  rw [authUser_eq]
  by_cases hc1 : UCheck H d.r d.u id ((alg2Digest H d.r n d.o d.p id d.encryptMetadata pass).take n)
  · have hc1' := hc1; unfold UCheck at hc1'
    simp only [hc1', decide_true, if_true, hc1]
  · have hc1' := hc1; unfold UCheck at hc1'
    simp only [hc1', decide_false, if_false, hc1, Bool.false_eq_true]
    -- the owner path
    have hrounds : roundList 0 (if d.r = 2 then 1 else 20) = (if d.r ≥ 3 then List.range 20 else [0]).map UInt8.ofNat := by
      by_cases h2 : d.r = 2
      · rw [if_pos h2, if_neg (by omega)]; rfl
      · rw [if_neg h2, if_pos (by omega), roundList_eq]; simp
    rw [hrounds, rc4Rounds_eq hwk, Out.bind_ok]
    have hrev : rc4Chain (alg3Key H d.r n pass) (if d.r ≥ 3 then List.range 20 else [0]) d.o =
        rc4Chain (alg3Key H d.r n pass) (if d.r ≥ 3 then (List.range 20).reverse else [0]) d.o := by
      by_cases h3 : d.r ≥ 3
      · rw [if_pos h3, if_pos h3, rc4Chain_reverse]
      · rw [if_neg h3, if_neg h3]
    rw [hrev]
    unfold authOwner
    rw [authUser_eq]
    generalize rc4Chain (alg3Key H d.r n pass) (if d.r ≥ 3 then (List.range 20).reverse else [0]) d.o = upw
    by_cases hc2 : UCheck H d.r d.u id ((alg2Digest H d.r n d.o d.p id d.encryptMetadata upw).take n)
    · have hc2' := hc2; unfold UCheck at hc2'
      simp only [hc2', decide_true, if_true, hc2]
    · have hc2' := hc2; unfold UCheck at hc2'
      simp only [hc2', decide_false, if_false, hc2, Bool.false_eq_true]

/-- **the user password is accepted** (revisions 2–4) and the decoder holds the very key the writer
    derived with Algorithm 2 — for every key length 1..16 bytes, every password (any length, any bytes),
    `/P`, document id and `EncryptMetadata` flag. -/
theorem user_password_accepted_rc4 {P : Prims} {H : Hashes} (hp : PrimsAgree P H) (hw : H.WF) (d : CryptDict) (id0 : Bytes)
    (n : Nat) (m : Method) (hsel : selectMethod d = .ok (8 * n, m)) (hn : 1 ≤ n ∧ n ≤ 16) (hr : 2 ≤ d.r ∧ d.r ≤ 4)
    (userPw ownerPw tail : Bytes) (w : WrittenRc4 H d id0 n userPw ownerPw tail) :
    ∃ dec, fromPassword P d id0 userPw = .ok (.decoder dec) ∧ dec.method = m ∧
      dec.encryptMetadata = (d.encryptMetadata || decide (d.r < 4)) ∧
      dec.keyOf = .ok (alg2Key H d.r n d.o d.p id0 d.encryptMetadata userPw) := by
  rw [from_password_rc4 hp hw d id0 userPw n m hsel hn hr]
  unfold authenticate
  rw [authUser_eq, if_pos (ucheck_written hw w)]
  refine ⟨_, rfl, rfl, rfl, ?_⟩
  simp only [Decoder.keyOf, Decoder.mk', alg2Key, Nat.min_eq_left hn.2]
  rw [if_pos (by rw [alg2Digest_length hw]; exact hn.2)]

/-- **the owner password is accepted** (revisions 2–4) with the same file key. The only assumption beyond
    the primitives being functions: *if* the owner password, tried as a user password, happens to
    reproduce `/U` (an RC4/MD5 collision unless both passwords pad to the same 32 bytes), then it does so
    with the same key. -/
theorem owner_password_accepted_rc4 {P : Prims} {H : Hashes} (hp : PrimsAgree P H) (hw : H.WF) (d : CryptDict) (id0 : Bytes)
    (n : Nat) (m : Method) (hsel : selectMethod d = .ok (8 * n, m)) (hn : 1 ≤ n ∧ n ≤ 16) (hr : 2 ≤ d.r ∧ d.r ≤ 4)
    (userPw ownerPw tail : Bytes) (w : WrittenRc4 H d id0 n userPw ownerPw tail)
    (hcoll : UCheck H d.r d.u id0 ((alg2Digest H d.r n d.o d.p id0 d.encryptMetadata ownerPw).take n) →
      (alg2Digest H d.r n d.o d.p id0 d.encryptMetadata ownerPw).take n = alg2Key H d.r n d.o d.p id0 d.encryptMetadata userPw) :
    ∃ dec, fromPassword P d id0 ownerPw = .ok (.decoder dec) ∧ dec.method = m ∧
      dec.encryptMetadata = (d.encryptMetadata || decide (d.r < 4)) ∧
      dec.keyOf = .ok (alg2Key H d.r n d.o d.p id0 d.encryptMetadata userPw) := by
  rw [from_password_rc4 hp hw d id0 ownerPw n m hsel hn hr]
  unfold authenticate
  rw [authUser_eq]
  by_cases hc : UCheck H d.r d.u id0 ((alg2Digest H d.r n d.o d.p id0 d.encryptMetadata ownerPw).take n)
  · rw [if_pos hc]
    refine ⟨_, rfl, rfl, rfl, ?_⟩
    simp only [Decoder.keyOf, Decoder.mk', Nat.min_eq_left hn.2]
    rw [if_pos (by rw [alg2Digest_length hw]; exact hn.2), hcoll hc]
  · rw [if_neg hc]
    -- Algorithm 7 recovers the padded user password from /O
    have hun : rc4Chain (alg3Key H d.r n ownerPw) (if d.r ≥ 3 then (List.range 20).reverse else [0]) d.o = pad32 userPw := by
      rw [w.o]; unfold makeO
      by_cases h3 : d.r ≥ 3
      · rw [if_pos h3, if_pos h3, rc4Chain_reverse, rc4Chain_involution]
      · rw [if_neg h3, if_neg h3, rc4Chain_involution]
    unfold authOwner
    simp only [hun]
    rw [authUser_eq, alg2Digest_pad32, if_pos (ucheck_written hw w)]
    refine ⟨_, rfl, rfl, rfl, ?_⟩
    simp only [Decoder.keyOf, Decoder.mk', alg2Key, Nat.min_eq_left hn.2]
    rw [if_pos (by rw [alg2Digest_length hw]; exact hn.2)]

/-- **a wrong password is rejected with `InvalidPassword`** (revisions 2–4): whenever Algorithms 6 and 7
    both fail for the password. -/
theorem wrong_password_rejected_rc4 {P : Prims} {H : Hashes} (hp : PrimsAgree P H) (hw : H.WF) (d : CryptDict) (id0 pw : Bytes)
    (n : Nat) (m : Method) (hsel : selectMethod d = .ok (8 * n, m)) (hn : 1 ≤ n ∧ n ≤ 16) (hr : 2 ≤ d.r ∧ d.r ≤ 4)
    (hwrong : authenticate H d.r n d.o d.u d.p id0 d.encryptMetadata pw = none) :
    fromPassword P d id0 pw = .ok .invalidPassword := by
  rw [from_password_rc4 hp hw d id0 pw n m hsel hn hr, hwrong]

/-- … and only then: a password the model accepts is one the standard accepts, and the key the decoder
    holds reproduces `/U` -/
theorem accepted_only_if_authenticated_rc4 {P : Prims} {H : Hashes} (hp : PrimsAgree P H) (hw : H.WF) (d : CryptDict) (id0 pw : Bytes)
    (n : Nat) (m : Method) (hsel : selectMethod d = .ok (8 * n, m)) (hn : 1 ≤ n ∧ n ≤ 16) (hr : 2 ≤ d.r ∧ d.r ≤ 4)
    (dec : Decoder) (hacc : fromPassword P d id0 pw = .ok (.decoder dec)) :
    ∃ dg, authenticate H d.r n d.o d.u d.p id0 d.encryptMetadata pw = some dg ∧ dec.keyOf = .ok (dg.take n) ∧
      UCheck H d.r d.u id0 (dg.take n) := by
  rw [from_password_rc4 hp hw d id0 pw n m hsel hn hr] at hacc
  cases ha : authenticate H d.r n d.o d.u d.p id0 d.encryptMetadata pw with
  | none => rw [ha] at hacc; cases hacc
  | some dg =>
    rw [ha] at hacc
    have hd : dec = Decoder.mk' dg n m (d.encryptMetadata || decide (d.r < 4)) := by
      injection hacc with h; injection h with h; exact h.symm
    have ⟨hl, hu⟩ := authenticate_some hw _ _ _ _ _ _ _ _ _ ha
    refine ⟨dg, rfl, ?_, hu⟩
    subst hd
    simp only [Decoder.keyOf, Decoder.mk', Nat.min_eq_left hn.2]
    rw [if_pos (by rw [hl]; exact hn.2)]

/-! ## Passwords, revisions 5 and 6 -/

/-- **`revision_6_kdf` is Algorithm 2.B** of ISO 32000-2 for every password of at most 127 bytes (what
    `from_password` passes after the truncation), every salt, and `u` empty or the 48 bytes of `/U`: same
    rounds, same stopping rule (`while i < 64 || i < last + 32` against "64 rounds, then until the last
    byte of E is at most the round number minus 32"), the byte sum modulo 3 against the big-endian number
    modulo 3, no panic (the scratch buffer is large enough) and no exhaustion of the 289 units of fuel. -/
theorem revision_6_kdf_is_algorithm_2B {P : Prims} {H : Hashes} (hp : PrimsAgree P H) (hw : H.WF) (pw salt u : Bytes)
    (hpw : pw.length ≤ 127) (hu : u.length ≤ 48) : revision6Kdf P pw salt u = .ok (hash2B H pw salt u) :=
  revision6Kdf_eq hp hw pw salt u hpw hu

/-- **`from_password`, revisions 5 and 6, in the terms of the standard**: SASLprep + truncation to 127 bytes,
    the user check with the user validation salt, else the owner check with the owner validation salt and
    the 48 bytes of `/U`, the intermediate key from the key salt, AES-256-CBC (zero IV, no padding) unwrap
    of `/UE` resp. `/OE`. The hash is SHA-256 (revision 5) or Algorithm 2.B (revision 6;
    `revision6Kdf_eq` shows the loop of `revision_6_kdf` is the loop of the standard). -/
theorem from_password_56 {P : Prims} {H : Hashes} (hp : PrimsAgree P H) (hw : H.WF) (d : CryptDict) (id pass : Bytes)
    (kb : Nat) (m : Method) (hsel : selectMethod d = .ok (kb, m)) (hr : d.r = 5 ∨ d.r = 6)
    (hu : d.u.length = 48) (ho : d.o.length = 48) (ue oe : Bytes) (hue : d.ue = some ue) (hoe : d.oe = some oe)
    (huel : ue.length = 32) (hoel : oe.length = 32) :
    fromPassword P d id pass = .ok (match prepPw H pass with
      | none => .invalidPassword
      | some p =>
        if StdSec.hash56 H d.r p ((d.u.drop 32).take 8) [] = d.u.take 32 then
          .decoder (Decoder.mk' (cbcDec (H.aesD (StdSec.hash56 H d.r p ((d.u.drop 40).take 8) [])) 2 zeroIV ue) 32 m d.encryptMetadata)
        else if StdSec.hash56 H d.r p ((d.o.drop 32).take 8) d.u = d.o.take 32 then
          .decoder (Decoder.mk' (cbcDec (H.aesD (StdSec.hash56 H d.r p ((d.o.drop 40).take 8) d.u)) 2 zeroIV oe) 32 m d.encryptMetadata)
        else .invalidPassword) := by
  unfold fromPassword
  rw [hsel, Out.bind_ok]
  simp only []
  rw [if_neg (by omega), if_neg (by omega)]
  unfold fromPassword56
  rw [if_neg (by omega), if_neg (by omega), hp.saslprep]
  unfold prepPw
  cases hprep : H.prep pass with
  | none => rfl
  | some y =>
    simp only [Option.map_some, hue, hoe]
    have hpw : (if y.length > 127 then y.take 127 else y) = y.take 127 := by
      split
      · rfl
      · rw [List.take_of_length_le (by omega)]
    rw [hpw]
    have hl : (y.take 127).length ≤ 127 := by rw [List.length_take]; omega
    have hfin : ∀ ik wrapped : Bytes, wrapped.length = 32 →
        (if wrapped.length ≠ 32 then (Out.err : Out PwResult)
          else match cbcDecryptNoPad P ik (List.replicate 16 0) wrapped with
            | .ok k => .ok (.decoder (Decoder.mk' k 32 m d.encryptMetadata))
            | .err => .ok .invalidPassword
            | .panic => .panic
            | .oof => .oof) = .ok (.decoder (Decoder.mk' (cbcDec (H.aesD ik) 2 zeroIV wrapped) 32 m d.encryptMetadata)) := by
      intro ik wrapped hwl
      rw [if_neg (by omega)]
      unfold cbcDecryptNoPad
      rw [if_neg (by omega), hwl, cbcDecryptBlocks_eq hp]
      rfl
    simp only [hash56_eq hp hw d.r _ _ _ hl (by simp : ([] : Bytes).length ≤ 48),
      hash56_eq hp hw d.r _ _ _ hl (by omega : d.u.length ≤ 48), Out.bind_ok]
    by_cases h1 : StdSec.hash56 H d.r (y.take 127) ((d.u.drop 32).take 8) [] = d.u.take 32
    · rw [if_pos (beq_iff_eq.mpr h1), if_pos h1]; exact hfin _ _ huel
    · rw [if_neg (fun h => h1 (beq_iff_eq.mp h)), if_neg h1]
      by_cases h2 : StdSec.hash56 H d.r (y.take 127) ((d.o.drop 32).take 8) d.u = d.o.take 32
      · rw [if_pos (beq_iff_eq.mpr h2), if_pos h2]; exact hfin _ _ hoel
      · rw [if_neg (fun h => h2 (beq_iff_eq.mp h)), if_neg h2]

/-- **a wrong password is rejected with `InvalidPassword`** (revisions 5, 6): whenever Algorithm 2.A fails
    (password not UTF-8 / prohibited by SASLprep, or neither hash matches) -/
theorem wrong_password_rejected_56 {P : Prims} {H : Hashes} (hp : PrimsAgree P H) (hw : H.WF) (d : CryptDict) (id pass : Bytes)
    (kb : Nat) (m : Method) (hsel : selectMethod d = .ok (kb, m)) (hr : d.r = 5 ∨ d.r = 6)
    (hu : d.u.length = 48) (ho : d.o.length = 48) (ue oe : Bytes) (hue : d.ue = some ue) (hoe : d.oe = some oe)
    (huel : ue.length = 32) (hoel : oe.length = 32)
    (hwrong : auth56 H d.r d.o d.u oe ue pass = none) : fromPassword P d id pass = .ok .invalidPassword := by
  rw [from_password_56 hp hw d id pass kb m hsel hr hu ho ue oe hue hoe huel hoel]
  unfold auth56 at hwrong
  cases hp' : prepPw H pass with
  | none => rfl
  | some p =>
    rw [hp'] at hwrong
    simp only [] at hwrong ⊢
    by_cases h2 : StdSec.hash56 H d.r p ((d.o.drop 32).take 8) d.u = d.o.take 32
    · rw [if_pos h2] at hwrong; cases hwrong
    · rw [if_neg h2] at hwrong
      by_cases h1 : StdSec.hash56 H d.r p ((d.u.drop 32).take 8) [] = d.u.take 32
      · rw [if_pos h1] at hwrong; cases hwrong
      · rw [if_neg h1, if_neg h2]

/-- **the user password is accepted** (revisions 5, 6): the decoder's key is the file key the writer
    wrapped into `/UE` — for every password SASLprep accepts (of any length: 127 bytes count), all salts,
    every 32 byte file key, every `/O`, `/OE` of the right size. -/
theorem user_password_accepted_56 {P : Prims} {H : Hashes} (hp : PrimsAgree P H) (hw : H.WF) (d : CryptDict) (id userPw : Bytes)
    (kb : Nat) (m : Method) (hsel : selectMethod d = .ok (kb, m)) (hr : d.r = 5 ∨ d.r = 6)
    (ho : d.o.length = 48) (oe : Bytes) (hoe : d.oe = some oe) (hoel : oe.length = 32)
    (pU vs ks fileKey : Bytes) (hprep : prepPw H userPw = some pU) (w : WrittenU56 H d pU vs ks fileKey) :
    fromPassword P d id userPw = .ok (.decoder (Decoder.mk' fileKey 32 m d.encryptMetadata)) := by
  have ⟨hul, ht, hv, hk⟩ := makeU56_parts hw d.r pU vs ks w.vs w.ks
  have huel : (makeUE H d.r pU ks fileKey).length = 32 := by
    unfold makeUE
    exact cbcEnc_length (hw.aesE_len _) 2 zeroIV fileKey (by simp [zeroIV]) (by rw [w.key])
  rw [from_password_56 hp hw d id userPw kb m hsel hr (by rw [w.u]; exact hul) ho _ oe w.ue hoe huel hoel, hprep]
  simp only []
  rw [w.u, hv, ht, hk, if_pos rfl]
  unfold makeUE
  rw [unwrap_wrap hw _ _ (hash56_length hw ..) w.key]

/-- **the owner password is accepted** (revisions 5, 6) with the same file key. Only assumption beyond the
    primitives: *if* the owner password also passes the user check (same password in both roles, or a
    SHA-256 / 2.B collision), then `/UE` unwraps to the same key. -/
theorem owner_password_accepted_56 {P : Prims} {H : Hashes} (hp : PrimsAgree P H) (hw : H.WF) (d : CryptDict) (id ownerPw : Bytes)
    (kb : Nat) (m : Method) (hsel : selectMethod d = .ok (kb, m)) (hr : d.r = 5 ∨ d.r = 6)
    (hu : d.u.length = 48) (ue : Bytes) (hue : d.ue = some ue) (huel : ue.length = 32)
    (pO vs ks fileKey : Bytes) (hprep : prepPw H ownerPw = some pO) (w : WrittenO56 H d pO vs ks fileKey)
    (hcoll : StdSec.hash56 H d.r pO ((d.u.drop 32).take 8) [] = d.u.take 32 →
      cbcDec (H.aesD (StdSec.hash56 H d.r pO ((d.u.drop 40).take 8) [])) 2 zeroIV ue = fileKey) :
    fromPassword P d id ownerPw = .ok (.decoder (Decoder.mk' fileKey 32 m d.encryptMetadata)) := by
  have hl := hash56_length hw d.r pO vs d.u
  have hol : d.o.length = 48 := by rw [w.o]; simp [makeO56, hl, w.vs, w.ks]
  have ht : d.o.take 32 = StdSec.hash56 H d.r pO vs d.u := by
    rw [w.o]; unfold makeO56; rw [List.append_assoc, List.take_left' hl]
  have hv : (d.o.drop 32).take 8 = vs := by
    rw [w.o]; unfold makeO56; rw [List.append_assoc, List.drop_left' hl, List.take_left' w.vs]
  have hk : (d.o.drop 40).take 8 = ks := by
    rw [w.o]; unfold makeO56
    rw [show 40 = (StdSec.hash56 H d.r pO vs d.u ++ vs).length by simp [hl, w.vs], List.drop_left,
      List.take_of_length_le (by rw [w.ks]; exact Nat.le_refl _)]
  have hoel : (makeOE H d.r pO ks d.u fileKey).length = 32 := by
    unfold makeOE
    exact cbcEnc_length (hw.aesE_len _) 2 zeroIV fileKey (by simp [zeroIV]) (by rw [w.key])
  rw [from_password_56 hp hw d id ownerPw kb m hsel hr hu hol ue _ hue w.oe huel hoel, hprep]
  simp only []
  by_cases h1 : StdSec.hash56 H d.r pO ((d.u.drop 32).take 8) [] = d.u.take 32
  · rw [if_pos h1, hcoll h1]
  · rw [if_neg h1, hv, ht, hk, if_pos rfl]
    unfold makeOE
    rw [unwrap_wrap hw _ _ (hash56_length hw ..) w.key]

/-! ## Whole objects: every string and every stream of a document -/

/-- **every string and every stream, every variant**: what the writer stored decrypts to the plaintext -/
theorem decrypt_stored {P : Prims} {H : Hashes} (hp : PrimsAgree P H) (hw : H.WF) (d : Decoder) (c : Cipher) (fileKey : Bytes)
    (hm : Matches d c fileKey) (id gen : Nat) (plain stored : Bytes)
    (hs : StoredAs H c fileKey (Exempt d id gen) id gen plain stored) : decrypt P d id gen stored = .ok plain := by
  rcases hs with ⟨hx, rfl⟩ | ⟨hx, iv, hiv, rfl⟩
  · rcases hx with h | ⟨hem, h⟩
    · exact encrypt_dict_untouched P d id gen _ h
    · exact metadata_untouched P d id gen _ hem h
  · cases c with
    | rc4 => exact decrypt_encrypt_v2 hp hw d fileKey hm.1 hm.2 id gen iv plain hx
    | aes128 => exact decrypt_encrypt_aesv2 hp hw d fileKey hm.1 hm.2.1 hm.2.2 id gen iv plain hiv hx
    | aes256 => exact decrypt_encrypt_aesv3 hp hw d fileKey hm.1 hm.2.1 hm.2.2 id gen iv plain hiv hx

/-- **an indirect object read from the file**: for every object `(id, gen)` (the id is the one in the object
    header), every nesting of arrays and dictionaries, every number of strings: `resolve` yields the
    plaintext value when the decoder matches the writer's cipher and key. Objects of the encryption
    dictionary and (EncryptMetadata false) of the metadata stream come back unmodified because the writer
    left them in the clear (`StoredAs` with `Exempt`). Members of object streams are not touched at all. -/
theorem read_object_plaintext {P : Prims} {H : Hashes} (hp : PrimsAgree P H) (hw : H.WF) (d : Decoder) (c : Cipher)
    (fileKey : Bytes) (hm : Matches d c fileKey) (compressed : Bool) (id gen : Nat) (plain stored : Val)
    (hs : if compressed then stored = plain
          else EncVal (StoredAs H c fileKey (Exempt d id gen) id gen) plain stored) :
    readObject P (some d) compressed id gen stored = .ok plain := by
  unfold readObject
  cases compressed with
  | true => simp at hs; simp [hs]
  | false =>
    simp at hs
    simp only [Bool.false_eq_true, if_false]
    exact decryptVal_enc d id gen (fun p s h => decrypt_stored hp hw d c fileKey hm id gen p s h) plain stored hs

/-- **a stream read through `Stream::data`**: decryption first, with the stream's own id, then the filters
    — so the decoded data is what the filters make of the plaintext the writer encrypted. -/
theorem decode_stream_plaintext {P : Prims} {H : Hashes} (hp : PrimsAgree P H) (hw : H.WF) (d : Decoder) (c : Cipher)
    (fileKey : Bytes) (hm : Matches d c fileKey) (id gen : Nat) (filtered stored : Bytes)
    (filters : List (Bytes → Out Bytes))
    (hs : StoredAs H c fileKey (Exempt d id gen) id gen filtered stored) :
    decodeStream P (some d) id gen stored filters = applyFilters filters filtered := by
  unfold decodeStream ctxDecrypt
  simp only [decrypt_stored hp hw d c fileKey hm id gen filtered stored hs, Out.bind_ok]

/-- the strings of the encryption dictionary object, whatever they are (`/O`, `/U`, `/OE`, `/UE`, `/Perms`, …),
    are returned unmodified: no hypothesis on key, method or content -/
theorem encrypt_dict_object_untouched (P : Prims) (d : Decoder) (id gen : Nat) (h : d.encryptRef = some (id, gen)) (v : Val) :
    readObject P (some d) false id gen v = .ok v := by
  unfold readObject
  simp only [Bool.false_eq_true, if_false]
  have hR : ∀ p s : Bytes, p = s → decrypt P d id gen s = .ok p := by
    intro p s e; subst e; exact encrypt_dict_untouched P d id gen _ h
  have hrefl : ∀ v : Val, EncVal (fun p s => p = s) v v := by
    intro v
    exact Val.rec (motive_1 := fun v => EncVal (fun p s => p = s) v v)
      (motive_2 := fun vs => EncVals (fun p s => p = s) vs vs)
      (motive_3 := fun kvs => EncKvs (fun p s => p = s) kvs kvs)
      (motive_4 := fun kv => EncVal (fun p s => p = s) kv.2 kv.2)
      (fun b => by simp [EncVal]) (fun t => by simp [EncVal]) (fun xs ih => by simpa [EncVal] using ih)
      (fun kvs ih => by simpa [EncVal] using ih)
      (by simp [EncVals]) (fun x xs ihx ihxs => by simp [EncVals, ihx, ihxs])
      (by simp [EncKvs]) (fun kv kvs ihkv ihkvs => by cases kv; simp [EncKvs]; exact ⟨ihkv, ihkvs⟩)
      (fun k v ih => ih) v
  exact decryptVal_enc d id gen hR v v (hrefl v)

/-! ## End to end: open with a password, then read any object -/

theorem matches_install (dec : Decoder) (c : Cipher) (fileKey : Bytes) (encRef metaRef : Option (Nat × Nat))
    (hm : Matches dec c fileKey) : Matches (installDecoder dec encRef metaRef) c fileKey := by
  cases c <;> exact hm

/-- **C06 for revisions 2–4, user password**: a document whose `/O`, `/U` were made by Algorithms 3–5 and
    whose strings and streams were stored by Algorithm 1 under the Algorithm 2 key (RC4 of any key length
    1..16 bytes, or AES-128) opens with the user password, and then *every* object — any object and
    generation number, any nesting, direct or in an object stream, whatever the trailer's `/Encrypt` and the
    catalog's `/Metadata` refer to — reads as its plaintext; objects the writer left in the clear (the
    encryption dictionary, the metadata object when `EncryptMetadata` is false) come back unmodified. -/
theorem document_plaintext_user_rc4 {P : Prims} {H : Hashes} (hp : PrimsAgree P H) (hw : H.WF) (d : CryptDict) (id0 : Bytes)
    (n : Nat) (m : Method) (c : Cipher) (hsel : selectMethod d = .ok (8 * n, m)) (hn : 1 ≤ n ∧ n ≤ 16) (hr : 2 ≤ d.r ∧ d.r ≤ 4)
    (hc : (m = .v2 ∧ c = .rc4) ∨ (m = .aesv2 ∧ c = .aes128 ∧ n = 16))
    (userPw ownerPw tail : Bytes) (w : WrittenRc4 H d id0 n userPw ownerPw tail) :
    ∃ dec, fromPassword P d id0 userPw = .ok (.decoder dec) ∧
      ∀ (encRef metaRef : Option (Nat × Nat)) (compressed : Bool) (id gen : Nat) (plain stored : Val),
        (if compressed then stored = plain
         else EncVal (StoredAs H c (alg2Key H d.r n d.o d.p id0 d.encryptMetadata userPw)
                (Exempt (installDecoder dec encRef metaRef) id gen) id gen) plain stored) →
        readObject P (some (installDecoder dec encRef metaRef)) compressed id gen stored = .ok plain := by
  obtain ⟨dec, hfp, hmeth, _, hkey⟩ := user_password_accepted_rc4 hp hw d id0 n m hsel hn hr userPw ownerPw tail w
  refine ⟨dec, hfp, ?_⟩
  intro encRef metaRef compressed id gen plain stored hs
  have hkl : (alg2Key H d.r n d.o d.p id0 d.encryptMetadata userPw).length = n := by
    unfold alg2Key; rw [List.length_take, alg2Digest_length hw]; omega
  have hm : Matches dec c (alg2Key H d.r n d.o d.p id0 d.encryptMetadata userPw) := by
    rcases hc with ⟨h1, h2⟩ | ⟨h1, h2, h3⟩
    · subst h2; exact ⟨hmeth.trans h1, hkey⟩
    · subst h2; exact ⟨hmeth.trans h1, hkey, by rw [hkl, h3]⟩
  exact read_object_plaintext hp hw _ c _ (matches_install dec c _ encRef metaRef hm) compressed id gen plain stored hs

/-- **C06 for revisions 5 and 6, user password** (AES-256): as above with Algorithm 8 and Algorithm 1.A -/
theorem document_plaintext_user_56 {P : Prims} {H : Hashes} (hp : PrimsAgree P H) (hw : H.WF) (d : CryptDict) (id userPw : Bytes)
    (kb : Nat) (hsel : selectMethod d = .ok (kb, .aesv3)) (hr : d.r = 5 ∨ d.r = 6)
    (ho : d.o.length = 48) (oe : Bytes) (hoe : d.oe = some oe) (hoel : oe.length = 32)
    (pU vs ks fileKey : Bytes) (hprep : prepPw H userPw = some pU) (w : WrittenU56 H d pU vs ks fileKey) :
    ∃ dec, fromPassword P d id userPw = .ok (.decoder dec) ∧
      ∀ (encRef metaRef : Option (Nat × Nat)) (compressed : Bool) (id gen : Nat) (plain stored : Val),
        (if compressed then stored = plain
         else EncVal (StoredAs H .aes256 fileKey (Exempt (installDecoder dec encRef metaRef) id gen) id gen) plain stored) →
        readObject P (some (installDecoder dec encRef metaRef)) compressed id gen stored = .ok plain := by
  refine ⟨_, user_password_accepted_56 hp hw d id userPw kb .aesv3 hsel hr ho oe hoe hoel pU vs ks fileKey hprep w, ?_⟩
  intro encRef metaRef compressed id gen plain stored hs
  have hm : Matches (Decoder.mk' fileKey 32 .aesv3 d.encryptMetadata) .aes256 fileKey := ⟨rfl, rfl, w.key⟩
  exact read_object_plaintext hp hw _ .aes256 _ (matches_install _ _ _ encRef metaRef hm) compressed id gen plain stored hs

/-! ### Audit follow-up: strings *and* stream data, user *and* owner password -/

/-- everything read through a decoder installed for a document comes back as plaintext: every object
    (strings in any nesting; members of object streams untouched) and every stream (decryption with the
    stream's own id, then the filters), whatever `/Encrypt` and `/Metadata` refer to -/
def ReadsPlaintext (P : Prims) (H : Hashes) (dec : Decoder) (c : Cipher) (fileKey : Bytes) : Prop :=
  ∀ (encRef metaRef : Option (Nat × Nat)),
    (∀ (compressed : Bool) (id gen : Nat) (plain stored : Val),
      (if compressed then stored = plain
       else EncVal (StoredAs H c fileKey (Exempt (installDecoder dec encRef metaRef) id gen) id gen) plain stored) →
      readObject P (some (installDecoder dec encRef metaRef)) compressed id gen stored = .ok plain) ∧
    (∀ (id gen : Nat) (filtered stored : Bytes) (filters : List (Bytes → Out Bytes)),
      StoredAs H c fileKey (Exempt (installDecoder dec encRef metaRef) id gen) id gen filtered stored →
      decodeStream P (some (installDecoder dec encRef metaRef)) id gen stored filters = applyFilters filters filtered)

/-- a decoder that holds the writer's key for the writer's cipher reads everything as plaintext
    (composition of `read_object_plaintext`, `decode_stream_plaintext` and `matches_install`) -/
theorem reads_plaintext_of_matches {P : Prims} {H : Hashes} (hp : PrimsAgree P H) (hw : H.WF) (dec : Decoder) (c : Cipher)
    (fileKey : Bytes) (hm : Matches dec c fileKey) : ReadsPlaintext P H dec c fileKey := by
  intro encRef metaRef
  have hm' := matches_install dec c fileKey encRef metaRef hm
  exact ⟨fun compressed id gen plain stored hs => read_object_plaintext hp hw _ c _ hm' compressed id gen plain stored hs,
    fun id gen filtered stored filters hs => decode_stream_plaintext hp hw _ c _ hm' id gen filtered stored filters hs⟩

/-- **stream data tied to `from_password`, revisions 2–4, user password**: the document of
    `document_plaintext_user_rc4` opens with the user password and then every object *and every stream*
    (`Storage::decode`: decrypt with the stream's id, then the filters) yields the plaintext. -/
theorem document_stream_plaintext_user_rc4 {P : Prims} {H : Hashes} (hp : PrimsAgree P H) (hw : H.WF) (d : CryptDict) (id0 : Bytes)
    (n : Nat) (m : Method) (c : Cipher) (hsel : selectMethod d = .ok (8 * n, m)) (hn : 1 ≤ n ∧ n ≤ 16) (hr : 2 ≤ d.r ∧ d.r ≤ 4)
    (hc : (m = .v2 ∧ c = .rc4) ∨ (m = .aesv2 ∧ c = .aes128 ∧ n = 16))
    (userPw ownerPw tail : Bytes) (w : WrittenRc4 H d id0 n userPw ownerPw tail) :
    ∃ dec, fromPassword P d id0 userPw = .ok (.decoder dec) ∧
      ReadsPlaintext P H dec c (alg2Key H d.r n d.o d.p id0 d.encryptMetadata userPw) := by
  obtain ⟨dec, hfp, hmeth, _, hkey⟩ := user_password_accepted_rc4 hp hw d id0 n m hsel hn hr userPw ownerPw tail w
  refine ⟨dec, hfp, reads_plaintext_of_matches hp hw dec c _ ?_⟩
  have hkl : (alg2Key H d.r n d.o d.p id0 d.encryptMetadata userPw).length = n := by
    unfold alg2Key; rw [List.length_take, alg2Digest_length hw]; omega
  rcases hc with ⟨h1, h2⟩ | ⟨h1, h2, h3⟩
  · subst h2; exact ⟨hmeth.trans h1, hkey⟩
  · subst h2; exact ⟨hmeth.trans h1, hkey, by rw [hkl, h3]⟩

/-- **C06 for revisions 2–4, owner password, end to end** (objects and streams). Same document as above;
    the one extra hypothesis is the `hcoll` of `owner_password_accepted_rc4` (the owner password tried as
    user password does not reproduce `/U` with a *different* key), which cannot be dropped. The decoder then
    holds the *same* file key as for the user password, so everything reads as plaintext. -/
theorem document_plaintext_owner_rc4 {P : Prims} {H : Hashes} (hp : PrimsAgree P H) (hw : H.WF) (d : CryptDict) (id0 : Bytes)
    (n : Nat) (m : Method) (c : Cipher) (hsel : selectMethod d = .ok (8 * n, m)) (hn : 1 ≤ n ∧ n ≤ 16) (hr : 2 ≤ d.r ∧ d.r ≤ 4)
    (hc : (m = .v2 ∧ c = .rc4) ∨ (m = .aesv2 ∧ c = .aes128 ∧ n = 16))
    (userPw ownerPw tail : Bytes) (w : WrittenRc4 H d id0 n userPw ownerPw tail)
    (hcoll : UCheck H d.r d.u id0 ((alg2Digest H d.r n d.o d.p id0 d.encryptMetadata ownerPw).take n) →
      (alg2Digest H d.r n d.o d.p id0 d.encryptMetadata ownerPw).take n = alg2Key H d.r n d.o d.p id0 d.encryptMetadata userPw) :
    ∃ dec, fromPassword P d id0 ownerPw = .ok (.decoder dec) ∧
      ReadsPlaintext P H dec c (alg2Key H d.r n d.o d.p id0 d.encryptMetadata userPw) := by
  obtain ⟨dec, hfp, hmeth, _, hkey⟩ := owner_password_accepted_rc4 hp hw d id0 n m hsel hn hr userPw ownerPw tail w hcoll
  refine ⟨dec, hfp, reads_plaintext_of_matches hp hw dec c _ ?_⟩
  have hkl : (alg2Key H d.r n d.o d.p id0 d.encryptMetadata userPw).length = n := by
    unfold alg2Key; rw [List.length_take, alg2Digest_length hw]; omega
  rcases hc with ⟨h1, h2⟩ | ⟨h1, h2, h3⟩
  · subst h2; exact ⟨hmeth.trans h1, hkey⟩
  · subst h2; exact ⟨hmeth.trans h1, hkey, by rw [hkl, h3]⟩

/-- **stream data tied to `from_password`, revisions 5 and 6, user password** (objects and streams) -/
theorem document_stream_plaintext_user_56 {P : Prims} {H : Hashes} (hp : PrimsAgree P H) (hw : H.WF) (d : CryptDict) (id userPw : Bytes)
    (kb : Nat) (hsel : selectMethod d = .ok (kb, .aesv3)) (hr : d.r = 5 ∨ d.r = 6)
    (ho : d.o.length = 48) (oe : Bytes) (hoe : d.oe = some oe) (hoel : oe.length = 32)
    (pU vs ks fileKey : Bytes) (hprep : prepPw H userPw = some pU) (w : WrittenU56 H d pU vs ks fileKey) :
    ∃ dec, fromPassword P d id userPw = .ok (.decoder dec) ∧ ReadsPlaintext P H dec .aes256 fileKey :=
  ⟨_, user_password_accepted_56 hp hw d id userPw kb .aesv3 hsel hr ho oe hoe hoel pU vs ks fileKey hprep w,
    reads_plaintext_of_matches hp hw _ .aes256 fileKey ⟨rfl, rfl, w.key⟩⟩

/-- **C06 for revisions 5 and 6, owner password, end to end** (objects and streams), under the `hcoll` of
    `owner_password_accepted_56` (if the owner password also passes the user check, `/UE` unwraps to the same key) -/
theorem document_plaintext_owner_56 {P : Prims} {H : Hashes} (hp : PrimsAgree P H) (hw : H.WF) (d : CryptDict) (id ownerPw : Bytes)
    (kb : Nat) (hsel : selectMethod d = .ok (kb, .aesv3)) (hr : d.r = 5 ∨ d.r = 6)
    (hu : d.u.length = 48) (ue : Bytes) (hue : d.ue = some ue) (huel : ue.length = 32)
    (pO vs ks fileKey : Bytes) (hprep : prepPw H ownerPw = some pO) (w : WrittenO56 H d pO vs ks fileKey)
    (hcoll : StdSec.hash56 H d.r pO ((d.u.drop 32).take 8) [] = d.u.take 32 →
      cbcDec (H.aesD (StdSec.hash56 H d.r pO ((d.u.drop 40).take 8) [])) 2 zeroIV ue = fileKey) :
    ∃ dec, fromPassword P d id ownerPw = .ok (.decoder dec) ∧ ReadsPlaintext P H dec .aes256 fileKey :=
  ⟨_, owner_password_accepted_56 hp hw d id ownerPw kb .aesv3 hsel hr hu ue hue huel pO vs ks fileKey hprep w hcoll,
    reads_plaintext_of_matches hp hw _ .aes256 fileKey ⟨rfl, rfl, w.key⟩⟩

/-- before revision 4 `/EncryptMetadata` means nothing: whatever the dictionary says, the decoder
    `from_password` returns for revisions 2 and 3 exempts the encryption dictionary only, so the metadata
    stream is decrypted like every other stream (after the repair f5ad9f6) -/
theorem metadata_exemption_needs_r4 {P : Prims} {H : Hashes} (hp : PrimsAgree P H) (hw : H.WF) (d : CryptDict) (id0 pw : Bytes)
    (n : Nat) (m : Method) (hsel : selectMethod d = .ok (8 * n, m)) (hn : 1 ≤ n ∧ n ≤ 16) (hr : 2 ≤ d.r ∧ d.r ≤ 3)
    (dec : Decoder) (hacc : fromPassword P d id0 pw = .ok (.decoder dec)) (encRef metaRef : Option (Nat × Nat)) (id gen : Nat) :
    Exempt (installDecoder dec encRef metaRef) id gen ↔ encRef = some (id, gen) := by
  rw [from_password_rc4 hp hw d id0 pw n m hsel hn ⟨hr.1, by omega⟩] at hacc
  cases ha : authenticate H d.r n d.o d.u d.p id0 d.encryptMetadata pw with
  | none => rw [ha] at hacc; cases hacc
  | some dg =>
    rw [ha] at hacc
    have hd : dec = Decoder.mk' dg n m (d.encryptMetadata || decide (d.r < 4)) := by
      injection hacc with h; injection h with h; exact h.symm
    subst hd
    have : decide (d.r < 4) = true := by simp; omega
    simp [Exempt, installDecoder, Decoder.mk', this]

/-! ## The variants: what `V` / `Length` / `CF` select -/

/-- RC4 40-bit (V 1): always 5 bytes, whatever `/Length` says -/
theorem select_v1 (d : CryptDict) (h : d.v = 1) : selectMethod d = .ok (8 * 5, .v2) := by
  simp [selectMethod, h]

/-- RC4 40..128-bit (V 2): `/Length` -/
theorem select_v2 (d : CryptDict) (n : Nat) (h : d.v = 2) (hb : d.bits = 8 * n) : selectMethod d = .ok (8 * n, .v2) := by
  simp [selectMethod, h, hb]

/-- crypt-filter RC4 (V 4, `/CFM /V2`): the crypt filter's `/Length` (bytes) or else the dictionary's (bits) -/
theorem select_v4_rc4 (d : CryptDict) (name : Bytes) (f : CryptFilter) (n : Nat) (h : d.v = 4) (hs : d.stmF = some name)
    (hf : d.cf.lookup name = some f) (hm : f.method = .v2)
    (hl : f.length = some n ∧ n < 2 ^ 29 ∨ f.length = none ∧ d.bits = 8 * n) : selectMethod d = .ok (8 * n, .v2) := by
  rcases hl with ⟨hl, hn⟩ | ⟨hl, hb⟩
  · have : 8 * n < 4294967296 := by omega
    simp [selectMethod, h, hs, hf, hm, hl, this]
  · simp [selectMethod, h, hs, hf, hm, hl, hb]

/-- crypt-filter AES-128 (V 4, `/CFM /AESV2`): 16 bytes, with or without any `/Length` (after the repair) -/
theorem select_v4_aes (d : CryptDict) (name : Bytes) (f : CryptFilter) (h : d.v = 4) (hs : d.stmF = some name)
    (hf : d.cf.lookup name = some f) (hm : f.method = .aesv2) : selectMethod d = .ok (8 * 16, .aesv2) := by
  simp [selectMethod, h, hs, hf, hm]

/-- AES-256 (V 5, `/CFM /AESV3`) -/
theorem select_v5 (d : CryptDict) (name : Bytes) (f : CryptFilter) (h : d.v = 5) (hs : d.stmF = some name)
    (hf : d.cf.lookup name = some f) (hm : f.method = .aesv3) (hl : f.length = none ∨ f.length = some 32) :
    ∃ kb, selectMethod d = .ok (kb, .aesv3) := by
  rcases hl with hl | hl <;> simp [selectMethod, h, hs, hf, hm, hl]

/-! ## Non-vacuity: the hypotheses are satisfiable and the statements say something

Concrete evaluation of RC4 inside the kernel costs about ten seconds per key schedule, so besides the two
test vectors above only the two audit follow-up facts at the end (`owner_is_not_user`, `wrong_is_wrong`) are evaluated; the examples below *apply* the theorems to concrete dictionaries, which
shows that their hypotheses can be met (by toy primitives of the right sizes, since the real MD5 / SHA /
AES are not part of the development). -/

namespace Toy

/-- toy primitives with the right sizes (a sum-based "hash", byte reversal as block cipher) -/
def mix (n : Nat) (x : Bytes) : Bytes :=
  (List.range n).map fun i => UInt8.ofNat (x.foldl (fun a b => (a * 31 + b.toNat + i) % 65521) (7 * i + 1))

def H : Hashes :=
  { md5 := mix 16, sha256 := mix 32, sha384 := mix 48, sha512 := mix 64,
    aesE := fun _ b => b.reverse, aesD := fun _ b => b.reverse, prep := some }

def P : Prims :=
  { md5 := fun x => .ok (H.md5 x), sha256 := fun x => .ok (H.sha256 x), sha384 := fun x => .ok (H.sha384 x),
    sha512 := fun x => .ok (H.sha512 x), aesEnc := fun k b => .ok (H.aesE k b), aesDec := fun k b => .ok (H.aesD k b),
    saslprep := fun x => .ok x }

theorem agree : PrimsAgree P H := ⟨fun _ => rfl, fun _ => rfl, fun _ => rfl, fun _ => rfl, fun _ _ => rfl, fun _ _ => rfl, fun _ => rfl⟩

theorem wf : H.WF :=
  ⟨fun _ => by simp [H, mix], fun _ => by simp [H, mix], fun _ => by simp [H, mix], fun _ => by simp [H, mix],
   fun _ b h => by simp [H, h], fun _ b _ _ => by simp [H]⟩

def userPw : Bytes := [0x75, 0x73, 0x65, 0x72]
def ownerPw : Bytes := [0x6f, 0x77, 0x6e, 0x65, 0x72]
def id0 : Bytes := [1, 2, 3, 4]

/-- a revision 3 dictionary (V 2, 56-bit key) as a conforming writer makes it -/
def dict3 (opw : Bytes) : CryptDict :=
  let o := makeO H 3 7 opw userPw
  { o := o, u := makeU H 3 (alg2Key H 3 7 o (-44) id0 true userPw) id0 (List.replicate 16 0xAA),
    r := 3, p := -44, v := 2, bits := 56, cf := [], stmF := none, encryptMetadata := true, oe := none, ue := none }

theorem written3 (opw : Bytes) : WrittenRc4 H (dict3 opw) id0 7 userPw opw (List.replicate 16 0xAA) :=
  ⟨by simp [dict3], by simp [dict3]⟩

/-- the hypotheses of `user_password_accepted_rc4` hold for a concrete dictionary, passwords and id -/
example : ∃ dec, fromPassword P (dict3 ownerPw) id0 userPw = .ok (.decoder dec) ∧ dec.method = .v2 ∧ dec.encryptMetadata = true ∧
    dec.keyOf = .ok (alg2Key H 3 7 (dict3 ownerPw).o (-44) id0 true userPw) :=
  user_password_accepted_rc4 agree wf (dict3 ownerPw) id0 7 .v2 (select_v2 _ 7 rfl rfl) (by decide) (by decide) userPw ownerPw _ (written3 _)

/-- … and of `owner_password_accepted_rc4` (here with the owner password equal to the user password — "no
    owner password" — where the collision hypothesis holds by reflexivity) -/
example : ∃ dec, fromPassword P (dict3 userPw) id0 userPw = .ok (.decoder dec) ∧ dec.method = .v2 ∧ dec.encryptMetadata = true ∧
    dec.keyOf = .ok (alg2Key H 3 7 (dict3 userPw).o (-44) id0 true userPw) :=
  owner_password_accepted_rc4 agree wf (dict3 userPw) id0 7 .v2 (select_v2 _ 7 rfl rfl) (by decide) (by decide) userPw userPw _ (written3 _)
    (fun _ => rfl)

/-- a dictionary no password opens (`/U` of the wrong size): the hypothesis of `wrong_password_rejected_rc4`
    is satisfiable, and the answer is `InvalidPassword` for *every* password -/
def dictNoU : CryptDict :=
  { o := List.replicate 32 1, u := [], r := 2, p := -4, v := 1, bits := 40, cf := [], stmF := none,
    encryptMetadata := true, oe := none, ue := none }

example (pw : Bytes) : fromPassword P dictNoU id0 pw = .ok .invalidPassword := by
  refine wrong_password_rejected_rc4 agree wf dictNoU id0 pw 5 .v2 (select_v1 _ rfl) (by decide) (by decide) ?_
  have hno : ∀ k : Bytes, ¬ UCheck H dictNoU.r dictNoU.u id0 k := by
    intro k h
    have h : UCheck H 2 [] id0 k := h
    unfold UCheck at h
    simp only [if_true, makeU] at h
    have := congrArg List.length h
    rw [rc4_length] at this
    simp [PADDING_length] at this
  unfold authenticate
  rw [authUser_eq, if_neg (hno _)]
  simp only [authOwner]
  rw [authUser_eq, if_neg (hno _)]

/-- decrypt ∘ encrypt: the hypotheses of the three theorems are met by concrete decoders -/
example (id gen : Nat) (data : Bytes) :
    decrypt P (Decoder.mk' ([1, 2, 3, 4, 5, 6, 7] ++ List.replicate 9 0) 7 .v2 true) id gen
      (encryptObject H .rc4 [1, 2, 3, 4, 5, 6, 7] id gen [] data) = .ok data :=
  decrypt_encrypt_v2 agree wf _ _ rfl rfl id gen [] data (by simp [Exempt, Decoder.mk'])

example (id gen : Nat) (data : Bytes) :
    decrypt P (Decoder.mk' (List.replicate 16 9) 16 .aesv2 true) id gen
      (encryptObject H .aes128 (List.replicate 16 9) id gen (List.replicate 16 3) data) = .ok data :=
  decrypt_encrypt_aesv2 agree wf _ _ rfl rfl rfl id gen _ data rfl (by simp [Exempt, Decoder.mk'])

example (id gen : Nat) (data : Bytes) :
    decrypt P (Decoder.mk' (List.replicate 32 9) 32 .aesv3 false) id gen
      (encryptObject H .aes256 (List.replicate 32 9) id gen (List.replicate 16 3) data) = .ok data :=
  decrypt_encrypt_aesv3 agree wf _ _ rfl rfl rfl id gen _ data rfl (by simp [Exempt, Decoder.mk'])

/-- block-aligned data gets a whole block of padding: 16 bytes of plaintext are stored as 16 + 32 bytes -/
example : (encryptObject H .aes128 (List.replicate 16 9) 5 0 (List.replicate 16 3) (List.replicate 16 0x41)).length = 48 := by
  decide +kernel

/-- revisions 5 / 6: a dictionary written with Algorithm 8 for the prepared password, salts and file key -/
def dict6 : CryptDict :=
  { o := List.replicate 48 7, u := makeU56 H 6 userPw (List.replicate 8 1) (List.replicate 8 2), r := 6, p := -4, v := 5, bits := 256,
    cf := [([0x53], { method := .aesv3, length := none })], stmF := some [0x53], encryptMetadata := true,
    oe := some (List.replicate 32 5), ue := some (makeUE H 6 userPw (List.replicate 8 2) (List.replicate 32 0x4b)) }

example : fromPassword P dict6 id0 userPw = .ok (.decoder (Decoder.mk' (List.replicate 32 0x4b) 32 .aesv3 true)) :=
  user_password_accepted_56 agree wf dict6 id0 userPw 256 .aesv3 (by simp [selectMethod, dict6]) (Or.inr rfl) (by simp [dict6]) _ rfl (by simp)
    userPw (List.replicate 8 1) (List.replicate 8 2) (List.replicate 32 0x4b) (by simp [prepPw, H, userPw])
    ⟨rfl, rfl, by simp, by simp, by simp⟩

/-! ### Audit follow-up: owner ≠ user, wrong password against a well-formed `/U` (kernel evaluation, ≈ 100 s) -/

/-- a second toy hash whose MD5 looks at the first 32 bytes only (so that kernel evaluation of Algorithm 2
    does not have to evaluate `/O` first) -/
def H2 : Hashes := { H with md5 := fun x => mix 16 (x.take 32) }

def P2 : Prims :=
  { md5 := fun x => .ok (H2.md5 x), sha256 := fun x => .ok (H2.sha256 x), sha384 := fun x => .ok (H2.sha384 x),
    sha512 := fun x => .ok (H2.sha512 x), aesEnc := fun k b => .ok (H2.aesE k b), aesDec := fun k b => .ok (H2.aesD k b),
    saslprep := fun x => .ok x }

theorem agree2 : PrimsAgree P2 H2 := ⟨fun _ => rfl, fun _ => rfl, fun _ => rfl, fun _ => rfl, fun _ _ => rfl, fun _ _ => rfl, fun _ => rfl⟩

theorem wf2 : H2.WF :=
  ⟨fun _ => by simp [H2, mix], fun _ => by simp [H2, H, mix], fun _ => by simp [H2, H, mix], fun _ => by simp [H2, H, mix],
   fun _ b h => by simp [H2, H, h], fun _ b _ _ => by simp [H2, H]⟩

/-- revision 2 (V 1, 40 bit), owner password different from the user password -/
def dictOwner : CryptDict :=
  let o := makeO H2 2 5 ownerPw userPw
  { o := o, u := makeU H2 2 (alg2Key H2 2 5 o (-4) id0 true userPw) id0 [],
    r := 2, p := -4, v := 1, bits := 40, cf := [], stmF := none, encryptMetadata := true, oe := none, ue := none }

theorem writtenOwner : WrittenRc4 H2 dictOwner id0 5 userPw ownerPw [] := ⟨by simp [dictOwner], by simp [dictOwner]⟩

theorem owner_is_not_user :
    ¬ UCheck H2 dictOwner.r dictOwner.u id0 ((alg2Digest H2 dictOwner.r 5 dictOwner.o dictOwner.p id0 dictOwner.encryptMetadata ownerPw).take 5) := by
  decide +kernel

/-- **owner ≠ user password, Algorithm 7 exercised**: the owner password fails the user check
    (`owner_is_not_user`, evaluated in the kernel), so `from_password` reaches the owner branch (for revision 2
    one RC4 pass over `/O`), recovers the padded user password and ends with the user's file key; the whole
    document then reads as plaintext -/
example : ∃ dec, fromPassword P2 dictOwner id0 ownerPw = .ok (.decoder dec) ∧
    ReadsPlaintext P2 H2 dec .rc4 (alg2Key H2 2 5 dictOwner.o (-4) id0 true userPw) :=
  document_plaintext_owner_rc4 agree2 wf2 dictOwner id0 5 .v2 .rc4 (select_v1 _ rfl) (by decide) (by decide) (Or.inl ⟨rfl, rfl⟩)
    userPw ownerPw [] writtenOwner (fun h => absurd h owner_is_not_user)

/-- **a wrong password against a well-formed `/U`**: "uses" instead of "user" fails Algorithm 6 and
    Algorithm 7 (both evaluated in the kernel), hence `InvalidPassword` -/
theorem wrong_is_wrong : authenticate H2 2 5 dictOwner.o dictOwner.u dictOwner.p id0 dictOwner.encryptMetadata [0x75, 0x73, 0x65, 0x73] = none := by
  decide +kernel

example : fromPassword P2 dictOwner id0 [0x75, 0x73, 0x65, 0x73] = .ok .invalidPassword :=
  wrong_password_rejected_rc4 agree2 wf2 dictOwner id0 _ 5 .v2 (select_v1 _ rfl) (by decide) (by decide) wrong_is_wrong

end Toy

/-! ## The defects repaired on the way, as facts about the *old* code

D17: `Decoder::decrypt` passed `self.key()` — at most 16 bytes — to AES-256. With that slice the AESV3 arm
is `cbcDecryptPkcs7 P 32 (d.key.take 16) …`, which is `.err` for every input: -/
theorem d17_old_code_always_fails (P : Prims) (key iv ct : Bytes) :
    cbcDecryptPkcs7 P 32 (key.take 16) iv ct = .err := by
  unfold cbcDecryptPkcs7
  rw [if_pos (Or.inl (by rw [List.length_take]; omega))]

/-- D18: a key size of 0 reached `Rc4::new` with an empty key, which asserts; the model of the repaired
    code answers `.err` before (`fromPasswordRc4`), here is the assertion: -/
example : rc4Encrypt [] PADDING = .panic := by decide +kernel

end Crypt
