import PdfModel.Lemmas.Crypt

/-!
# C06 — encrypted documents yield their plaintext with either password, and only then

The theorems are about the model `Model/Crypt.lean` of `pdf/src/crypt.rs` (after the repairs of D17 and
D18) and of the places where decryption is invoked; the statement side is `Spec/StdSecurity.lean`, the
standard's algorithms written as a *writer* (and as the reader-side Algorithms 6, 7, 2.A). The
correspondence check for C06 ties the model to `Rc4`, `Decoder::{from_password, decrypt}` and the file
loader of the current source tree.

Hypotheses about third-party code, explicit in every theorem that needs them:
`hp : PrimsAgree P H` — MD5, SHA-256/384/512, the AES block function and SASLprep are functions (`H`);
`hw : H.WF` — their output sizes, and AES decryption inverts AES encryption for 16 / 32 byte keys.
RC4 is concrete.
-/

namespace Crypt
open StdSec

/-- the objects `Decoder::decrypt` leaves alone -/
def Exempt (d : Decoder) (id gen : Nat) : Prop :=
  d.encryptRef = some (id, gen) ∨ (d.encryptMetadata = false ∧ d.metadataRef = some (id, gen))

instance (d : Decoder) (id gen : Nat) : Decidable (Exempt d id gen) := by unfold Exempt; infer_instance

/-! ## RC4 -/

/-- **RC4 is an involution**, for every key and every data: with a key `Rc4::new` accepts (1..256 bytes)
    encrypting twice gives the data back; with any other key both calls panic. -/
theorem rc4_involution (key data : Bytes) :
    (rc4Encrypt key data).bind (rc4Encrypt key) = if validKey key then .ok data else .panic := by
  by_cases h : validKey key
  · rw [if_pos h, rc4Encrypt_eq h, Out.bind_ok, rc4Encrypt_eq h, rc4_rc4]
  · rw [if_neg h, rc4Encrypt_panic h]; rfl

/-- the same, as an implication on results -/
theorem rc4_involution' (key data c : Bytes) (h : rc4Encrypt key data = .ok c) : rc4Encrypt key c = .ok data := by
  by_cases hv : validKey key
  · rw [rc4Encrypt_eq hv] at h; cases h; rw [rc4Encrypt_eq hv, rc4_rc4]
  · rw [rc4Encrypt_panic hv] at h; cases h

/-- RC4 keeps the length (so an empty string stays empty and `/Length` stays right) -/
theorem rc4_keeps_length (key data c : Bytes) (h : rc4Encrypt key data = .ok c) : c.length = data.length := by
  by_cases hv : validKey key
  · rw [rc4Encrypt_eq hv] at h; cases h; exact rc4_length _ _
  · rw [rc4Encrypt_panic hv] at h; cases h

/-- the model's cipher is RC4: the classic test vectors ("Key"/"Plaintext", "Wiki"/"pedia") -/
example : rc4Encrypt [0x4b, 0x65, 0x79] [0x50, 0x6c, 0x61, 0x69, 0x6e, 0x74, 0x65, 0x78, 0x74]
    = .ok [0xbb, 0xf3, 0x16, 0xe8, 0xd9, 0x40, 0xaf, 0x0a, 0xd3] := by decide +kernel
example : rc4Encrypt [0x57, 0x69, 0x6b, 0x69] [0x70, 0x65, 0x64, 0x69, 0x61] = .ok [0x10, 0x21, 0xbf, 0x04, 0x20] := by
  decide +kernel

/-! ## Per-object decryption inverts the standard's encryption (Algorithm 1 / 1.A) -/

theorem ite_isEmpty_of_length_pos {α : Type} (l : Bytes) (h : 0 < l.length) (a b : α)
    [inst : Decidable (l.isEmpty = true)] : (@ite α (l.isEmpty = true) inst a b) = b := by
  have hn : ¬ (l.isEmpty = true) := by
    cases l with
    | nil => simp at h
    | cons _ _ => simp
  rw [if_neg hn]

theorem rc4_roundtrip_aux (okey data : Bytes) (hv : validKey okey) :
    (if (rc4 okey data).isEmpty = true then Out.ok (rc4 okey data) else rc4Encrypt okey (rc4 okey data)) = .ok data := by
  rw [rc4Encrypt_eq hv, rc4_rc4]
  cases data with
  | nil =>
    have : rc4 okey [] = [] := List.eq_nil_of_length_eq_zero (by rw [rc4_length]; rfl)
    rw [this]; rfl
  | cons x xs => exact ite_isEmpty_of_length_pos _ (by rw [rc4_length]; simp) _ _

theorem decrypt_v2 (P : Prims) (d : Decoder) (id gen : Nat) (data : Bytes) (h : ¬ Exempt d id gen) (hm : d.method = .v2) :
    decrypt P d id gen data =
      if data.isEmpty then .ok data else
      d.keyOf.bind fun k => (P.md5 (k ++ idBytes id ++ genBytes gen)).bind fun h =>
          rc4Encrypt (h.take (min (k.length + 5) 16)) data := by
  unfold Exempt at h
  have h1 : ¬ d.encryptRef = some (id, gen) := fun e => h (Or.inl e)
  have h2 : ¬ ((!d.encryptMetadata) = true ∧ d.metadataRef = some (id, gen)) := by
    intro ⟨a, b⟩; exact h (Or.inr ⟨by simpa using a, b⟩)
  unfold decrypt
  rw [if_neg h1, if_neg h2, hm]

theorem decrypt_aesv2 (P : Prims) (d : Decoder) (id gen : Nat) (data : Bytes) (h : ¬ Exempt d id gen) (hm : d.method = .aesv2) :
    decrypt P d id gen data =
      if data.isEmpty then .ok data else
      d.keyOf.bind fun k => (P.md5 (k ++ idBytes id ++ genBytes gen ++ sAlT)).bind fun h =>
          if data.length < 16 then .err
          else cbcDecryptPkcs7 P 16 (h.take (min (min d.keySize 16 + 5) 16)) (data.take 16) (data.drop 16) := by
  unfold Exempt at h
  have h1 : ¬ d.encryptRef = some (id, gen) := fun e => h (Or.inl e)
  have h2 : ¬ ((!d.encryptMetadata) = true ∧ d.metadataRef = some (id, gen)) := by
    intro ⟨a, b⟩; exact h (Or.inr ⟨by simpa using a, b⟩)
  unfold decrypt
  rw [if_neg h1, if_neg h2, hm]

theorem decrypt_aesv3 (P : Prims) (d : Decoder) (id gen : Nat) (data : Bytes) (h : ¬ Exempt d id gen) (hm : d.method = .aesv3) :
    decrypt P d id gen data =
      if data.isEmpty then .ok data else
      if data.length < 16 then .err else cbcDecryptPkcs7 P 32 d.key (data.take 16) (data.drop 16) := by
  unfold Exempt at h
  have h1 : ¬ d.encryptRef = some (id, gen) := fun e => h (Or.inl e)
  have h2 : ¬ ((!d.encryptMetadata) = true ∧ d.metadataRef = some (id, gen)) := by
    intro ⟨a, b⟩; exact h (Or.inr ⟨by simpa using a, b⟩)
  unfold decrypt
  rw [if_neg h1, if_neg h2, hm]

/-- **decrypt ∘ encrypt, RC4 (V2)**: for every file key the decoder holds (any length up to 16, in
    particular 5..16), every object and generation number (also beyond 3 / 2 bytes), every data incl. empty. -/
theorem decrypt_encrypt_v2 {P : Prims} {H : Hashes} (hp : PrimsAgree P H) (hw : H.WF) (d : Decoder) (fileKey : Bytes)
    (hm : d.method = .v2) (hk : d.keyOf = .ok fileKey) (id gen : Nat) (iv data : Bytes) (hx : ¬ Exempt d id gen) :
    decrypt P d id gen (encryptObject H .rc4 fileKey id gen iv data) = .ok data := by
  rw [decrypt_v2 P d id gen _ hx hm]
  simp only [encryptObject, objectKey]
  simp only [hk, Out.bind_ok, hp.md5, idBytes_eq, genBytes_eq]
  exact rc4_roundtrip_aux _ data (by unfold validKey; rw [List.length_take, hw.md5_len]; omega)

/-- the CBC + PKCS#7 part shared by AESV2 and AESV3 -/
theorem cbcDecryptPkcs7_encrypt {P : Prims} {H : Hashes} (hp : PrimsAgree P H) (hw : H.WF) (klen : Nat) (key iv data : Bytes)
    (hkl : key.length = klen) (hk : klen = 16 ∨ klen = 32) (hiv : iv.length = 16) :
    cbcDecryptPkcs7 P klen key iv (cbcEnc (H.aesE key) ((pkcs7Pad data).length / 16) iv (pkcs7Pad data)) = .ok data := by
  have ⟨hmod, _⟩ := pkcs7Pad_length data
  have hlen : (pkcs7Pad data).length = 16 * ((pkcs7Pad data).length / 16) := by omega
  have hE : ∀ b, b.length = 16 → (H.aesE key b).length = 16 := hw.aesE_len key
  have hD : ∀ b, b.length = 16 → H.aesD key (H.aesE key b) = b := fun b hb => hw.aesD_E key b (by omega) hb
  have hcl := cbcEnc_length hE _ iv (pkcs7Pad data) hiv hlen
  unfold cbcDecryptPkcs7
  rw [if_neg (by omega), if_neg (by omega), cbcDecryptBlocks_eq hp, Out.bind_ok, hcl]
  rw [show 16 * ((pkcs7Pad data).length / 16) / 16 = (pkcs7Pad data).length / 16 by omega]
  rw [cbcDec_cbcEnc hE hD _ iv _ hiv hlen, pkcs7Unpad_pad]

/-- **decrypt ∘ encrypt, AES-128 (AESV2)**: every object / generation number, every length incl. 0 and
    block-aligned (a whole padding block), every 16 byte IV. -/
theorem decrypt_encrypt_aesv2 {P : Prims} {H : Hashes} (hp : PrimsAgree P H) (hw : H.WF) (d : Decoder) (fileKey : Bytes)
    (hm : d.method = .aesv2) (hk : d.keyOf = .ok fileKey) (hkl : fileKey.length = 16)
    (id gen : Nat) (iv data : Bytes) (hiv : iv.length = 16) (hx : ¬ Exempt d id gen) :
    decrypt P d id gen (encryptObject H .aes128 fileKey id gen iv data) = .ok data := by
  rw [decrypt_aesv2 P d id gen _ hx hm]
  simp only [encryptObject, objectKey]
  have hks : min d.keySize 16 = 16 := by
    unfold Decoder.keyOf at hk
    split at hk
    · cases hk; rw [List.length_take] at hkl; omega
    · cases hk
  refine (@ite_isEmpty_of_length_pos _ _ (by rw [List.length_append, hiv]; omega) _ _ _).trans ?_
  simp only [hk, Out.bind_ok, hp.md5, idBytes_eq, genBytes_eq, sAlT, hks, hkl]
  rw [if_neg (by rw [List.length_append, hiv]; omega)]
  rw [List.take_left' hiv, List.drop_left' hiv]
  exact cbcDecryptPkcs7_encrypt hp hw 16 _ iv data (by rw [List.length_take, hw.md5_len]; rfl) (Or.inl rfl) hiv

/-- **decrypt ∘ encrypt, AES-256 (AESV3, Algorithm 1.A)** — true of the code after the repair of D17 (the
    whole 32 byte key is used). -/
theorem decrypt_encrypt_aesv3 {P : Prims} {H : Hashes} (hp : PrimsAgree P H) (hw : H.WF) (d : Decoder) (fileKey : Bytes)
    (hm : d.method = .aesv3) (hk : d.key = fileKey) (hkl : fileKey.length = 32)
    (id gen : Nat) (iv data : Bytes) (hiv : iv.length = 16) (hx : ¬ Exempt d id gen) :
    decrypt P d id gen (encryptObject H .aes256 fileKey id gen iv data) = .ok data := by
  rw [decrypt_aesv3 P d id gen _ hx hm]
  simp only [encryptObject, objectKey]
  refine (@ite_isEmpty_of_length_pos _ _ (by rw [List.length_append, hiv]; omega) _ _ _).trans ?_
  simp only [hk]
  rw [if_neg (by rw [List.length_append, hiv]; omega)]
  rw [List.take_left' hiv, List.drop_left' hiv]
  exact cbcDecryptPkcs7_encrypt hp hw 32 _ iv data hkl (Or.inr rfl) hiv

/-! ## The exemptions -/

/-- **the encryption dictionary is untouched**: whatever the method, key and data -/
theorem encrypt_dict_untouched (P : Prims) (d : Decoder) (id gen : Nat) (data : Bytes)
    (h : d.encryptRef = some (id, gen)) : decrypt P d id gen data = .ok data := by
  unfold decrypt; rw [if_pos h]

/-- **the metadata object is untouched when `EncryptMetadata` is false** -/
theorem metadata_untouched (P : Prims) (d : Decoder) (id gen : Nat) (data : Bytes)
    (hem : d.encryptMetadata = false) (h : d.metadataRef = some (id, gen)) : decrypt P d id gen data = .ok data := by
  unfold decrypt
  split
  · rfl
  · rw [if_pos ⟨by simp [hem], h⟩]

end Crypt
