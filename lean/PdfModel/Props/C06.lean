import PdfModel.Lemmas.Crypt

/-!
# C06 — encrypted documents yield their plaintext with either password, and only then

The theorems are about the model `Model/Crypt.lean` of `pdf/src/crypt.rs` (after the repairs of D17 and
D18) and of the places where decryption is invoked; the statement side is `Spec/StdSecurity.lean`, the
standard's algorithms written as a *writer* (and as the reader-side Algorithms 6, 7, 2.A). The
correspondence check for C06 ties the model to `Rc4`, `Decoder::{from_password, decrypt}` and the file
loader of the current source tree.

Hypotheses about third-party code, explicit in every theorem that needs them:
`hp : PrimsAgree P H` — MD5, SHA-256/384/512, the AES block function and SASLprep are functions (`H`);
`hw : H.WF` — their output sizes, and AES decryption inverts AES encryption for 16 / 32 byte keys.
RC4 is concrete.
-/

namespace Crypt
open StdSec

/-- the objects `Decoder::decrypt` leaves alone -/
def Exempt (d : Decoder) (id gen : Nat) : Prop :=
  d.encryptRef = some (id, gen) ∨ (d.encryptMetadata = false ∧ d.metadataRef = some (id, gen))

instance (d : Decoder) (id gen : Nat) : Decidable (Exempt d id gen) := by unfold Exempt; infer_instance

/-! ## RC4 -/

/-- **RC4 is an involution**, for every key and every data: with a key `Rc4::new` accepts (1..256 bytes)
    encrypting twice gives the data back; with any other key both calls panic. -/
theorem rc4_involution (key data : Bytes) :
    (rc4Encrypt key data).bind (rc4Encrypt key) = if validKey key then .ok data else .panic := by
  by_cases h : validKey key
  · rw [if_pos h, rc4Encrypt_eq h, Out.bind_ok, rc4Encrypt_eq h, rc4_rc4]
  · rw [if_neg h, rc4Encrypt_panic h]; rfl

/-- the same, as an implication on results -/
theorem rc4_involution' (key data c : Bytes) (h : rc4Encrypt key data = .ok c) : rc4Encrypt key c = .ok data := by
  by_cases hv : validKey key
  · rw [rc4Encrypt_eq hv] at h; cases h; rw [rc4Encrypt_eq hv, rc4_rc4]
  · rw [rc4Encrypt_panic hv] at h; cases h

/-- RC4 keeps the length (so an empty string stays empty and `/Length` stays right) -/
theorem rc4_keeps_length (key data c : Bytes) (h : rc4Encrypt key data = .ok c) : c.length = data.length := by
  by_cases hv : validKey key
  · rw [rc4Encrypt_eq hv] at h; cases h; exact rc4_length _ _
  · rw [rc4Encrypt_panic hv] at h; cases h

/-- the model's cipher is RC4: the classic test vectors ("Key"/"Plaintext", "Wiki"/"pedia") -/
example : rc4Encrypt [0x4b, 0x65, 0x79] [0x50, 0x6c, 0x61, 0x69, 0x6e, 0x74, 0x65, 0x78, 0x74]
    = .ok [0xbb, 0xf3, 0x16, 0xe8, 0xd9, 0x40, 0xaf, 0x0a, 0xd3] := by decide +kernel
example : rc4Encrypt [0x57, 0x69, 0x6b, 0x69] [0x70, 0x65, 0x64, 0x69, 0x61] = .ok [0x10, 0x21, 0xbf, 0x04, 0x20] := by
  decide +kernel

/-! ## Per-object decryption inverts the standard's encryption (Algorithm 1 / 1.A) -/

theorem ite_isEmpty_of_length_pos {α : Type} (l : Bytes) (h : 0 < l.length) (a b : α)
    [inst : Decidable (l.isEmpty = true)] : (@ite α (l.isEmpty = true) inst a b) = b := by
  have hn : ¬ (l.isEmpty = true) := by
    cases l with
    | nil => simp at h
    | cons _ _ => simp
  rw [if_neg hn]

theorem rc4_roundtrip_aux (okey data : Bytes) (hv : validKey okey) :
    (if (rc4 okey data).isEmpty = true then Out.ok (rc4 okey data) else rc4Encrypt okey (rc4 okey data)) = .ok data := by
  rw [rc4Encrypt_eq hv, rc4_rc4]
  cases data with
  | nil =>
    have : rc4 okey [] = [] := List.eq_nil_of_length_eq_zero (by rw [rc4_length]; rfl)
    rw [this]; rfl
  | cons x xs => exact ite_isEmpty_of_length_pos _ (by rw [rc4_length]; simp) _ _

theorem decrypt_v2 (P : Prims) (d : Decoder) (id gen : Nat) (data : Bytes) (h : ¬ Exempt d id gen) (hm : d.method = .v2) :
    decrypt P d id gen data =
      if data.isEmpty then .ok data else
      d.keyOf.bind fun k => (P.md5 (k ++ idBytes id ++ genBytes gen)).bind fun h =>
          rc4Encrypt (h.take (min (k.length + 5) 16)) data := by
  unfold Exempt at h
  have h1 : ¬ d.encryptRef = some (id, gen) := fun e => h (Or.inl e)
  have h2 : ¬ ((!d.encryptMetadata) = true ∧ d.metadataRef = some (id, gen)) := by
    intro ⟨a, b⟩; exact h (Or.inr ⟨by simpa using a, b⟩)
  unfold decrypt
  rw [if_neg h1, if_neg h2, hm]

theorem decrypt_aesv2 (P : Prims) (d : Decoder) (id gen : Nat) (data : Bytes) (h : ¬ Exempt d id gen) (hm : d.method = .aesv2) :
    decrypt P d id gen data =
      if data.isEmpty then .ok data else
      d.keyOf.bind fun k => (P.md5 (k ++ idBytes id ++ genBytes gen ++ sAlT)).bind fun h =>
          if data.length < 16 then .err
          else cbcDecryptPkcs7 P 16 (h.take (min (min d.keySize 16 + 5) 16)) (data.take 16) (data.drop 16) := by
  unfold Exempt at h
  have h1 : ¬ d.encryptRef = some (id, gen) := fun e => h (Or.inl e)
  have h2 : ¬ ((!d.encryptMetadata) = true ∧ d.metadataRef = some (id, gen)) := by
    intro ⟨a, b⟩; exact h (Or.inr ⟨by simpa using a, b⟩)
  unfold decrypt
  rw [if_neg h1, if_neg h2, hm]

theorem decrypt_aesv3 (P : Prims) (d : Decoder) (id gen : Nat) (data : Bytes) (h : ¬ Exempt d id gen) (hm : d.method = .aesv3) :
    decrypt P d id gen data =
      if data.isEmpty then .ok data else
      if data.length < 16 then .err else cbcDecryptPkcs7 P 32 d.key (data.take 16) (data.drop 16) := by
  unfold Exempt at h
  have h1 : ¬ d.encryptRef = some (id, gen) := fun e => h (Or.inl e)
  have h2 : ¬ ((!d.encryptMetadata) = true ∧ d.metadataRef = some (id, gen)) := by
    intro ⟨a, b⟩; exact h (Or.inr ⟨by simpa using a, b⟩)
  unfold decrypt
  rw [if_neg h1, if_neg h2, hm]

/-- **decrypt ∘ encrypt, RC4 (V2)**: for every file key the decoder holds (any length up to 16, in
    particular 5..16), every object and generation number (also beyond 3 / 2 bytes), every data incl. empty. -/
theorem decrypt_encrypt_v2 {P : Prims} {H : Hashes} (hp : PrimsAgree P H) (hw : H.WF) (d : Decoder) (fileKey : Bytes)
    (hm : d.method = .v2) (hk : d.keyOf = .ok fileKey) (id gen : Nat) (iv data : Bytes) (hx : ¬ Exempt d id gen) :
    decrypt P d id gen (encryptObject H .rc4 fileKey id gen iv data) = .ok data := by
  rw [decrypt_v2 P d id gen _ hx hm]
  simp only [encryptObject, objectKey]
  simp only [hk, Out.bind_ok, hp.md5, idBytes_eq, genBytes_eq]
  exact rc4_roundtrip_aux _ data (by unfold validKey; rw [List.length_take, hw.md5_len]; omega)

/-- the CBC + PKCS#7 part shared by AESV2 and AESV3 -/
theorem cbcDecryptPkcs7_encrypt {P : Prims} {H : Hashes} (hp : PrimsAgree P H) (hw : H.WF) (klen : Nat) (key iv data : Bytes)
    (hkl : key.length = klen) (hk : klen = 16 ∨ klen = 32) (hiv : iv.length = 16) :
    cbcDecryptPkcs7 P klen key iv (cbcEnc (H.aesE key) ((pkcs7Pad data).length / 16) iv (pkcs7Pad data)) = .ok data := by
  have ⟨hmod, _⟩ := pkcs7Pad_length data
  have hlen : (pkcs7Pad data).length = 16 * ((pkcs7Pad data).length / 16) := by omega
  have hE : ∀ b, b.length = 16 → (H.aesE key b).length = 16 := hw.aesE_len key
  have hD : ∀ b, b.length = 16 → H.aesD key (H.aesE key b) = b := fun b hb => hw.aesD_E key b (by omega) hb
  have hcl := cbcEnc_length hE _ iv (pkcs7Pad data) hiv hlen
  unfold cbcDecryptPkcs7
  rw [if_neg (by omega), if_neg (by omega), cbcDecryptBlocks_eq hp, Out.bind_ok, hcl]
  rw [show 16 * ((pkcs7Pad data).length / 16) / 16 = (pkcs7Pad data).length / 16 by omega]
  rw [cbcDec_cbcEnc hE hD _ iv _ hiv hlen, pkcs7Unpad_pad]

/-- **decrypt ∘ encrypt, AES-128 (AESV2)**: every object / generation number, every length incl. 0 and
    block-aligned (a whole padding block), every 16 byte IV. -/
theorem decrypt_encrypt_aesv2 {P : Prims} {H : Hashes} (hp : PrimsAgree P H) (hw : H.WF) (d : Decoder) (fileKey : Bytes)
    (hm : d.method = .aesv2) (hk : d.keyOf = .ok fileKey) (hkl : fileKey.length = 16)
    (id gen : Nat) (iv data : Bytes) (hiv : iv.length = 16) (hx : ¬ Exempt d id gen) :
    decrypt P d id gen (encryptObject H .aes128 fileKey id gen iv data) = .ok data := by
  rw [decrypt_aesv2 P d id gen _ hx hm]
  simp only [encryptObject, objectKey]
  have hks : min d.keySize 16 = 16 := by
    unfold Decoder.keyOf at hk
    split at hk
    · cases hk; rw [List.length_take] at hkl; omega
    · cases hk
  refine (@ite_isEmpty_of_length_pos _ _ (by rw [List.length_append, hiv]; omega) _ _ _).trans ?_
  simp only [hk, Out.bind_ok, hp.md5, idBytes_eq, genBytes_eq, sAlT, hks, hkl]
  rw [if_neg (by rw [List.length_append, hiv]; omega)]
  rw [List.take_left' hiv, List.drop_left' hiv]
  exact cbcDecryptPkcs7_encrypt hp hw 16 _ iv data (by rw [List.length_take, hw.md5_len]; rfl) (Or.inl rfl) hiv

/-- **decrypt ∘ encrypt, AES-256 (AESV3, Algorithm 1.A)** — true of the code after the repair of D17 (the
    whole 32 byte key is used). -/
theorem decrypt_encrypt_aesv3 {P : Prims} {H : Hashes} (hp : PrimsAgree P H) (hw : H.WF) (d : Decoder) (fileKey : Bytes)
    (hm : d.method = .aesv3) (hk : d.key = fileKey) (hkl : fileKey.length = 32)
    (id gen : Nat) (iv data : Bytes) (hiv : iv.length = 16) (hx : ¬ Exempt d id gen) :
    decrypt P d id gen (encryptObject H .aes256 fileKey id gen iv data) = .ok data := by
  rw [decrypt_aesv3 P d id gen _ hx hm]
  simp only [encryptObject, objectKey]
  refine (@ite_isEmpty_of_length_pos _ _ (by rw [List.length_append, hiv]; omega) _ _ _).trans ?_
  simp only [hk]
  rw [if_neg (by rw [List.length_append, hiv]; omega)]
  rw [List.take_left' hiv, List.drop_left' hiv]
  exact cbcDecryptPkcs7_encrypt hp hw 32 _ iv data hkl (Or.inr rfl) hiv

/-! ## The exemptions -/

/-- **the encryption dictionary is untouched**: whatever the method, key and data -/
theorem encrypt_dict_untouched (P : Prims) (d : Decoder) (id gen : Nat) (data : Bytes)
    (h : d.encryptRef = some (id, gen)) : decrypt P d id gen data = .ok data := by
  unfold decrypt; rw [if_pos h]

/-- **the metadata object is untouched when `EncryptMetadata` is false** -/
theorem metadata_untouched (P : Prims) (d : Decoder) (id gen : Nat) (data : Bytes)
    (hem : d.encryptMetadata = false) (h : d.metadataRef = some (id, gen)) : decrypt P d id gen data = .ok data := by
  unfold decrypt
  split
  · rfl
  · rw [if_pos ⟨by simp [hem], h⟩]

/-! ## Passwords, revisions 2–4: `from_password` decides exactly what Algorithms 6 and 7 decide -/

/-- the comparison of Algorithm 6 for a candidate key -/
def UCheck (H : Hashes) (r : Nat) (u id k : Bytes) : Prop :=
  if r = 2 then makeU H 2 k id [] = u else makeU H r k id [] = u.take 16

instance (H : Hashes) (r : Nat) (u id k : Bytes) : Decidable (UCheck H r u id k) := by unfold UCheck; infer_instance

theorem authUser_eq (H : Hashes) (r n : Nat) (o u : Bytes) (p : Int) (id : Bytes) (em : Bool) (pw : Bytes) :
    authUser H r n o u p id em pw =
      if UCheck H r u id ((alg2Digest H r n o p id em pw).take n) then some (alg2Digest H r n o p id em pw) else none := by
  unfold authUser UCheck
  by_cases h2 : r = 2 <;> simp [h2]

/-- **`from_password`, revisions 2–4, is Algorithms 6 + 7.** For every encryption dictionary whose
    `V`/`Length`/`CF` entries select an `n`-byte key (1 ≤ n ≤ 16, i.e. in particular 40..128 bits), every
    document id and every password: the model accepts exactly when the standard's authentication does, the
    decoder holds the Algorithm 2 digest (whose first `n` bytes are the file key), and a password both
    algorithms reject yields `InvalidPassword` — never another error, never a panic. The owner path of the
    code applies the twenty RC4 passes in the order 0…19 where Algorithm 7 says 19…0: `rc4Chain_reverse`. -/
theorem from_password_rc4 {P : Prims} {H : Hashes} (hp : PrimsAgree P H) (hw : H.WF) (d : CryptDict) (id pass : Bytes)
    (n : Nat) (m : Method) (hsel : selectMethod d = .ok (8 * n, m)) (hn : 1 ≤ n ∧ n ≤ 16) (hr : 2 ≤ d.r ∧ d.r ≤ 4) :
    fromPassword P d id pass = .ok (match authenticate H d.r n d.o d.u d.p id d.encryptMetadata pass with
      | some dg => .decoder (Decoder.mk' dg n m d.encryptMetadata)
      | none => .invalidPassword) := by
  have hlen : ∀ pw, ((alg2Digest H d.r n d.o d.p id d.encryptMetadata pw).take n).length = n := by
    intro pw; rw [List.length_take, alg2Digest_length hw]; omega
  have hvalid : ∀ pw, validKey ((alg2Digest H d.r n d.o d.p id d.encryptMetadata pw).take n) := by
    intro pw; unfold validKey; rw [hlen]; omega
  have hwk : validKey (alg3Key H d.r n pass) := by
    unfold validKey alg3Key
    have : ((if d.r ≥ 3 then iter H.md5 50 (H.md5 (pad32 pass)) else H.md5 (pad32 pass))).length = 16 := by
      by_cases h3 : d.r ≥ 3
      · rw [if_pos h3]; exact iter_length hw.md5_len _ _ (hw.md5_len _)
      · rw [if_neg h3]; exact hw.md5_len _
    rw [List.length_take, this]; omega
  unfold fromPassword
  rw [hsel, Out.bind_ok]
  simp only []
  rw [if_neg (by omega), if_pos (by omega)]
  unfold fromPasswordRc4
  simp only [show 8 * n / 8 = n by omega]
  rw [if_neg (by omega)]
  simp only [keyDerivUser_eq hp d.r n hn.2, Out.bind_ok, Nat.min_eq_left hn.2,
    checkPasswordRc4_eq hp hw d.r d.u id _ (hvalid _), keyDerivOwner_eq hp hw d.r n hn.2]
  unfold authenticate
  rw [authUser_eq]
  by_cases hc1 : UCheck H d.r d.u id ((alg2Digest H d.r n d.o d.p id d.encryptMetadata pass).take n)
  · have hc1' := hc1; unfold UCheck at hc1'
    simp only [hc1', decide_true, if_true, hc1]
  · have hc1' := hc1; unfold UCheck at hc1'
    simp only [hc1', decide_false, if_false, hc1, Bool.false_eq_true]
    -- the owner path
    have hrounds : roundList 0 (if d.r = 2 then 1 else 20) = (if d.r ≥ 3 then List.range 20 else [0]).map UInt8.ofNat := by
      by_cases h2 : d.r = 2
      · rw [if_pos h2, if_neg (by omega)]; rfl
      · rw [if_neg h2, if_pos (by omega), roundList_eq]; simp
    rw [hrounds, rc4Rounds_eq hwk, Out.bind_ok]
    have hrev : rc4Chain (alg3Key H d.r n pass) (if d.r ≥ 3 then List.range 20 else [0]) d.o =
        rc4Chain (alg3Key H d.r n pass) (if d.r ≥ 3 then (List.range 20).reverse else [0]) d.o := by
      by_cases h3 : d.r ≥ 3
      · rw [if_pos h3, if_pos h3, rc4Chain_reverse]
      · rw [if_neg h3, if_neg h3]
    rw [hrev]
    unfold authOwner
    rw [authUser_eq]
    generalize rc4Chain (alg3Key H d.r n pass) (if d.r ≥ 3 then (List.range 20).reverse else [0]) d.o = upw
    by_cases hc2 : UCheck H d.r d.u id ((alg2Digest H d.r n d.o d.p id d.encryptMetadata upw).take n)
    · have hc2' := hc2; unfold UCheck at hc2'
      simp only [hc2', decide_true, if_true, hc2]
    · have hc2' := hc2; unfold UCheck at hc2'
      simp only [hc2', decide_false, if_false, hc2, Bool.false_eq_true]

/-- what a conforming writer puts into `/O` and `/U` (Algorithms 3, 4, 5) for revisions 2–4 -/
structure WrittenRc4 (H : Hashes) (d : CryptDict) (id0 : Bytes) (n : Nat) (userPw ownerPw tail : Bytes) : Prop where
  o : d.o = makeO H d.r n ownerPw userPw
  u : d.u = makeU H d.r (alg2Key H d.r n d.o d.p id0 d.encryptMetadata userPw) id0 tail

theorem ucheck_written {H : Hashes} (hw : H.WF) {d : CryptDict} {id0 : Bytes} {n : Nat} {userPw ownerPw tail : Bytes}
    (w : WrittenRc4 H d id0 n userPw ownerPw tail) :
    UCheck H d.r d.u id0 ((alg2Digest H d.r n d.o d.p id0 d.encryptMetadata userPw).take n) := by
  unfold UCheck
  rw [w.u]
  unfold alg2Key makeU
  by_cases h2 : d.r = 2
  · simp [h2]
  · simp only [if_neg h2, List.append_nil]
    rw [List.take_left']
    rw [rc4Chain_length, hw.md5_len]

theorem alg2Digest_pad32 (H : Hashes) (r n : Nat) (o : Bytes) (p : Int) (id0 : Bytes) (em : Bool) (pw : Bytes) :
    alg2Digest H r n o p id0 em (pad32 pw) = alg2Digest H r n o p id0 em pw := by
  unfold alg2Digest; rw [pad32_idem]

/-- **the user password is accepted** (revisions 2–4) and the decoder holds the very key the writer
    derived with Algorithm 2 — for every key length 1..16 bytes, every password (any length, any bytes),
    `/P`, document id and `EncryptMetadata` flag. -/
theorem user_password_accepted_rc4 {P : Prims} {H : Hashes} (hp : PrimsAgree P H) (hw : H.WF) (d : CryptDict) (id0 : Bytes)
    (n : Nat) (m : Method) (hsel : selectMethod d = .ok (8 * n, m)) (hn : 1 ≤ n ∧ n ≤ 16) (hr : 2 ≤ d.r ∧ d.r ≤ 4)
    (userPw ownerPw tail : Bytes) (w : WrittenRc4 H d id0 n userPw ownerPw tail) :
    ∃ dec, fromPassword P d id0 userPw = .ok (.decoder dec) ∧ dec.method = m ∧ dec.encryptMetadata = d.encryptMetadata ∧
      dec.keyOf = .ok (alg2Key H d.r n d.o d.p id0 d.encryptMetadata userPw) := by
  rw [from_password_rc4 hp hw d id0 userPw n m hsel hn hr]
  unfold authenticate
  rw [authUser_eq, if_pos (ucheck_written hw w)]
  refine ⟨_, rfl, rfl, rfl, ?_⟩
  simp only [Decoder.keyOf, Decoder.mk', alg2Key, Nat.min_eq_left hn.2]
  rw [if_pos (by rw [alg2Digest_length hw]; exact hn.2)]

/-- **the owner password is accepted** (revisions 2–4) with the same file key. The only assumption beyond
    the primitives being functions: *if* the owner password, tried as a user password, happens to
    reproduce `/U` (an RC4/MD5 collision unless both passwords pad to the same 32 bytes), then it does so
    with the same key. -/
theorem owner_password_accepted_rc4 {P : Prims} {H : Hashes} (hp : PrimsAgree P H) (hw : H.WF) (d : CryptDict) (id0 : Bytes)
    (n : Nat) (m : Method) (hsel : selectMethod d = .ok (8 * n, m)) (hn : 1 ≤ n ∧ n ≤ 16) (hr : 2 ≤ d.r ∧ d.r ≤ 4)
    (userPw ownerPw tail : Bytes) (w : WrittenRc4 H d id0 n userPw ownerPw tail)
    (hcoll : UCheck H d.r d.u id0 ((alg2Digest H d.r n d.o d.p id0 d.encryptMetadata ownerPw).take n) →
      (alg2Digest H d.r n d.o d.p id0 d.encryptMetadata ownerPw).take n = alg2Key H d.r n d.o d.p id0 d.encryptMetadata userPw) :
    ∃ dec, fromPassword P d id0 ownerPw = .ok (.decoder dec) ∧ dec.method = m ∧ dec.encryptMetadata = d.encryptMetadata ∧
      dec.keyOf = .ok (alg2Key H d.r n d.o d.p id0 d.encryptMetadata userPw) := by
  rw [from_password_rc4 hp hw d id0 ownerPw n m hsel hn hr]
  unfold authenticate
  rw [authUser_eq]
  by_cases hc : UCheck H d.r d.u id0 ((alg2Digest H d.r n d.o d.p id0 d.encryptMetadata ownerPw).take n)
  · rw [if_pos hc]
    refine ⟨_, rfl, rfl, rfl, ?_⟩
    simp only [Decoder.keyOf, Decoder.mk', Nat.min_eq_left hn.2]
    rw [if_pos (by rw [alg2Digest_length hw]; exact hn.2), hcoll hc]
  · rw [if_neg hc]
    -- Algorithm 7 recovers the padded user password from /O
    have hun : rc4Chain (alg3Key H d.r n ownerPw) (if d.r ≥ 3 then (List.range 20).reverse else [0]) d.o = pad32 userPw := by
      rw [w.o]; unfold makeO
      by_cases h3 : d.r ≥ 3
      · rw [if_pos h3, if_pos h3, rc4Chain_reverse, rc4Chain_involution]
      · rw [if_neg h3, if_neg h3, rc4Chain_involution]
    unfold authOwner
    simp only [hun]
    rw [authUser_eq, alg2Digest_pad32, if_pos (ucheck_written hw w)]
    refine ⟨_, rfl, rfl, rfl, ?_⟩
    simp only [Decoder.keyOf, Decoder.mk', alg2Key, Nat.min_eq_left hn.2]
    rw [if_pos (by rw [alg2Digest_length hw]; exact hn.2)]

/-- **a wrong password is rejected with `InvalidPassword`** (revisions 2–4): whenever Algorithms 6 and 7
    both fail for the password. -/
theorem wrong_password_rejected_rc4 {P : Prims} {H : Hashes} (hp : PrimsAgree P H) (hw : H.WF) (d : CryptDict) (id0 pw : Bytes)
    (n : Nat) (m : Method) (hsel : selectMethod d = .ok (8 * n, m)) (hn : 1 ≤ n ∧ n ≤ 16) (hr : 2 ≤ d.r ∧ d.r ≤ 4)
    (hwrong : authenticate H d.r n d.o d.u d.p id0 d.encryptMetadata pw = none) :
    fromPassword P d id0 pw = .ok .invalidPassword := by
  rw [from_password_rc4 hp hw d id0 pw n m hsel hn hr, hwrong]

theorem authenticate_some {H : Hashes} (hw : H.WF) (r n : Nat) (o u : Bytes) (p : Int) (id0 : Bytes) (em : Bool) (pw dg : Bytes)
    (ha : authenticate H r n o u p id0 em pw = some dg) : dg.length = 16 ∧ UCheck H r u id0 (dg.take n) := by
  unfold authenticate at ha
  rw [authUser_eq] at ha
  by_cases h1 : UCheck H r u id0 ((alg2Digest H r n o p id0 em pw).take n)
  · rw [if_pos h1] at ha
    injection ha with ha; subst ha
    exact ⟨alg2Digest_length hw .., h1⟩
  · rw [if_neg h1] at ha
    simp only [authOwner] at ha
    rw [authUser_eq] at ha
    generalize rc4Chain (alg3Key H r n pw) (if r ≥ 3 then (List.range 20).reverse else [0]) o = upw at ha
    by_cases h2 : UCheck H r u id0 ((alg2Digest H r n o p id0 em upw).take n)
    · rw [if_pos h2] at ha
      injection ha with ha; subst ha
      exact ⟨alg2Digest_length hw .., h2⟩
    · rw [if_neg h2] at ha; cases ha

/-- … and only then: a password the model accepts is one the standard accepts, and the key the decoder
    holds reproduces `/U` -/
theorem accepted_only_if_authenticated_rc4 {P : Prims} {H : Hashes} (hp : PrimsAgree P H) (hw : H.WF) (d : CryptDict) (id0 pw : Bytes)
    (n : Nat) (m : Method) (hsel : selectMethod d = .ok (8 * n, m)) (hn : 1 ≤ n ∧ n ≤ 16) (hr : 2 ≤ d.r ∧ d.r ≤ 4)
    (dec : Decoder) (hacc : fromPassword P d id0 pw = .ok (.decoder dec)) :
    ∃ dg, authenticate H d.r n d.o d.u d.p id0 d.encryptMetadata pw = some dg ∧ dec.keyOf = .ok (dg.take n) ∧
      UCheck H d.r d.u id0 (dg.take n) := by
  rw [from_password_rc4 hp hw d id0 pw n m hsel hn hr] at hacc
  cases ha : authenticate H d.r n d.o d.u d.p id0 d.encryptMetadata pw with
  | none => rw [ha] at hacc; cases hacc
  | some dg =>
    rw [ha] at hacc
    have hd : dec = Decoder.mk' dg n m d.encryptMetadata := by
      injection hacc with h; injection h with h; exact h.symm
    have ⟨hl, hu⟩ := authenticate_some hw _ _ _ _ _ _ _ _ _ ha
    refine ⟨dg, rfl, ?_, hu⟩
    subst hd
    simp only [Decoder.keyOf, Decoder.mk', Nat.min_eq_left hn.2]
    rw [if_pos (by rw [hl]; exact hn.2)]

end Crypt
