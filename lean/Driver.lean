import PdfModel.Drv.C02

/-! `driver`: answers one protocol line per input line (see PdfModel/Core/Proto.lean). Only import-free
    model code is linked here. -/

def dispatch (line : String) : String :=
  let args := Proto.fields line
  match args with
  | [] => "bad-request"
  | cmd :: _ =>
    if cmd.startsWith "c02." then DrvC02.handle args
    else "bad-request"

partial def loop (h : IO.FS.Stream) (out : IO.FS.Stream) : IO Unit := do
  let line ← h.getLine
  if line.isEmpty then return ()
  out.putStrLn (dispatch line)
  loop h out

def main : IO Unit := do
  let out ← IO.getStdout
  loop (← IO.getStdin) out
  out.flush
