#!/bin/sh
# Build the framework from files on disk only (offline): the Lean project (models, theorems, driver)
# and the Rust harness (which compiles /repo/pdf from its current working tree).
set -e
cd "$(dirname "$0")"
export CARGO_NET_OFFLINE=true
[ -e repo ] || ln -sfn /repo repo
python3 gen_registry.py
(cd lean && lake build PdfModel driver)
(cd harness && cargo build --release --offline)
echo setup-ok
