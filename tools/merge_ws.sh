#!/bin/sh
# usage: tools/merge_ws.sh NAME "commit message"  — merge /tmp/ws-NAME (verif branch + repo fix commits), then clean up
N=$1; MSG=$2
cd /verif || exit 2
git pull -q --no-edit /tmp/ws-$N/verif ws-$N 2>&1 | grep -i "conflict" | grep -v "MANIFEST.json\|known_findings.json\|evidence/"
tools/merge_resolve.sh | tail -2
git commit -qm "Merge $N: $MSG" | tail -1
cd /repo
for c in $(git log --reverse --format=%h main..ws-$N); do
  git cherry-pick $c >/dev/null 2>&1 || { echo "CONFLICT at $c: $(git show -s --format=%s $c)"; git diff --name-only --diff-filter=U; exit 1; }
done
cd /verif && python3 tools/fix_commit_ids.py | tail -1 | cut -c1-160
git -C /repo worktree remove --force /tmp/ws-$N/repo 2>/dev/null; git -C /repo branch -D ws-$N -q; rm -rf /tmp/ws-$N
git add -A; git commit -qm "commit ids on main after merging $N" -q
echo merged $N
