#!/usr/bin/env python3
"""prints the statements (not the proofs) of the theorems in a Props file"""
import sys, re
src = open(sys.argv[1]).read()
for m in re.finditer(r"(/--(?:(?!-/).)*-/\s*)?theorem\s+(\S+)(.*?)(:=\s*by|:=\s*\n|:=\s)", src, re.S):
    doc = (m.group(1) or "").strip().replace("\n", " ")
    print(f"## {m.group(2)}\n   {doc[:300]}\n  {' '.join(m.group(3).split())[:700]}\n")
