#!/usr/bin/env python3
"""usage: tools/ingest_seed2.py ID 'breaks1' 'needs1' 'breaks2' 'needs2' 'breaks3' 'needs3'
copies /tmp/seed2-<ID>-out/m{1,2,3} to seeded/<ID>-r2m{1,2,3} with meta.json"""
import sys, os, shutil, json
P = sys.argv[1]; a = sys.argv[2:]
for i in (1, 2, 3):
    src = f"/tmp/seed2-{P}-out/m{i}"
    if not os.path.isdir(src):
        print("missing", src); continue
    d = f"/verif/seeded/{P}-r2m{i}"; os.makedirs(d, exist_ok=True)
    for f in ("patch.diff", "demo.rs", "README.md"):
        shutil.copy(os.path.join(src, f), d)
    json.dump({"property": P, "round": 2, "breaks": a[2*(i-1)] if len(a) > 2*(i-1) else "", "needs": a[2*(i-1)+1] if len(a) > 2*(i-1)+1 else "",
               "origin": "fresh sub-agent (second round: told which first-round mutations to avoid), given only the property text and a scratch worktree (no access to /verif)"},
              open(d + "/meta.json", "w"), indent=1)
print("ingested", P)
