#!/bin/sh
# usage: tools/agent_ws.sh NAME
# Creates an isolated workspace /tmp/ws-NAME/{verif,repo}: a clone of /verif (branch ws-NAME) whose
# `repo` link points at a private git worktree of /repo (branch ws-NAME), so that several people can
# develop checks and "fix:" commits without touching /repo or /verif.
set -e
N=$1; W=/tmp/ws-$N
[ -n "$N" ] || { echo "usage: $0 NAME"; exit 2; }
mkdir -p $W
git clone -q /verif $W/verif
git -C $W/verif checkout -q -b ws-$N
git -C /repo worktree add -q -b ws-$N $W/repo HEAD
ln -sfn $W/repo $W/verif/repo
echo "workspace $W ready: cd $W/verif && ./setup.sh"
