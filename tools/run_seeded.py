#!/usr/bin/env python3
"""Runs the registered quick checks against every seeded change under /verif/seeded/<id>/.

For each seeded/<id>/meta.json ({"property": "Cnn", ...}) the patch is applied to /repo's working tree
(`git apply`), `./check Cnn --tier quick` is run, the outcome recorded, and the tree restored
(`git checkout -- .` + removal of files the patch added). Nothing is ever committed to /repo.
Writes seeded/RESULTS.md. Usage: tools/run_seeded.py [id ...]
"""
import json, os, subprocess, sys, time

ROOT = os.path.dirname(os.path.dirname(os.path.abspath(__file__)))
# the repository under test is whatever ROOT/repo links to: /repo for /verif itself, a private worktree for a
# clone made with tools/agent_ws.sh (so that long seeded runs do not block work on /repo)
REPO = os.path.realpath(os.path.join(ROOT, "repo")) if os.path.lexists(os.path.join(ROOT, "repo")) else "/repo"


def sh(cmd, cwd=None, timeout=None):
    p = subprocess.run(cmd, cwd=cwd, stdout=subprocess.PIPE, stderr=subprocess.STDOUT, text=True, timeout=timeout)
    return p.returncode, p.stdout


def clean():
    rc, out = sh(["git", "status", "--porcelain", "--untracked-files=no"], cwd=REPO)
    return out.strip() == ""


def main():
    ids = sys.argv[1:] or sorted(d for d in os.listdir(os.path.join(ROOT, "seeded")) if os.path.isdir(os.path.join(ROOT, "seeded", d)))
    if not clean():
        print("refusing to run: /repo has uncommitted changes to tracked files"); sys.exit(2)
    rows = []
    for sid in ids:
        d = os.path.join(ROOT, "seeded", sid)
        meta = json.load(open(os.path.join(d, "meta.json")))
        props = meta["property"] if isinstance(meta["property"], list) else [meta["property"]]
        patch = os.path.join(d, "patch.diff")
        rc, out = sh(["git", "apply", "--check", patch], cwd=REPO)
        if rc != 0:
            rows.append((sid, ",".join(props), "patch does not apply: " + out.strip()[:120], "", 0)); continue
        sh(["git", "apply", patch], cwd=REPO)
        try:
            for prop in props:
                t0 = time.time()
                try:
                    rc, out = sh([os.path.join(ROOT, "check"), prop, "--tier", "quick"], cwd=ROOT, timeout=3600)
                except subprocess.TimeoutExpired:
                    rc, out = -1, "timeout"
                vio = [l for l in out.splitlines() if l.startswith("VIOLATION")]
                kind = ""
                if vio:
                    kind = "no-failing-input-found" if all("no-failing-input-found" in v for v in vio) else "failing input"
                verdict = {0: "MISSED (exit 0)", 1: "caught (exit 1)"}.get(rc, f"exit {rc}: {out.strip()[-200:]}")
                rows.append((sid, prop, verdict, kind, round(time.time() - t0, 1)))
                print(sid, prop, verdict, kind)
        finally:
            sh(["git", "checkout", "--", "."], cwd=REPO)
            sh(["git", "clean", "-fdq", "--", "pdf", "pdf_derive", "examples"], cwd=REPO)
    assert clean()
    # the runs above rewrote evidence files and the translator's generated tables from mutated trees: restore
    sh(["git", "checkout", "--", "evidence", "lean/PdfModel/Generated"], cwd=ROOT)
    rp = os.path.join(ROOT, "seeded", "results.json")
    allr = json.load(open(rp)) if os.path.exists(rp) else {}
    for r in rows:
        allr[f"{r[0]}|{r[1]}"] = {"seeded": r[0], "property": r[1], "outcome": r[2], "replay_kind": r[3], "wall_s": r[4], "verif_commit": sh(["git", "rev-parse", "--short", "HEAD"], cwd=ROOT)[1].strip()}
    json.dump(allr, open(rp, "w"), indent=1, sort_keys=True)
    with open(os.path.join(ROOT, "seeded", "RESULTS.md"), "w") as f:
        f.write("# Seeded changes versus the registered quick checks\n\n(latest outcome per seeded change; `tools/run_seeded.py [id ...]` re-runs and updates; `verif` = commit of /verif the run used)\n\n| seeded change | property | outcome | replay kind | wall s | verif |\n|---|---|---|---|---|---|\n")
        for k in sorted(allr):
            r = allr[k]
            f.write(f"| {r['seeded']} | {r['property']} | {r['outcome']} | {r['replay_kind']} | {r['wall_s']} | {r['verif_commit']} |\n")
    print("written seeded/RESULTS.md")


if __name__ == "__main__":
    main()
