#!/bin/sh
# usage: tools/confirm_seed.sh ID...   (ID = directory under /verif/seeded with patch.diff and demo.rs)
# Confirms in a scratch worktree of /repo that each seeded change (a) compiles, (b) passes the existing
# test suite, (c) makes its demonstration fail, while (d) the demonstration passes without the change.
# Prints one line per id and appends it to seeded/<id>/confirmed.txt. The worktree is removed afterwards.
W=/tmp/seedconfirm-$$
git -C /repo worktree add -q --detach $W HEAD || exit 2
export CARGO_NET_OFFLINE=true
for id in "$@"; do
  D=/verif/seeded/$id
  cd $W && git checkout -q -- . && git clean -fdq pdf pdf_derive examples
  name=$(echo "seed_$id" | tr 'A-Z-' 'a-z_')
  cp $D/demo.rs $W/pdf/tests/$name.rs
  clean=$( (cd $W && cargo test --offline -p pdf --test $name 2>&1 | grep -E "^test result" | head -1) )
  git apply $D/patch.diff || { echo "$id: patch does not apply"; continue; }
  suite=$( (cd $W && cargo test --workspace --offline --no-fail-fast 2>&1 | grep -E "^test result" | grep -v "$name" ) )
  passed=$(echo "$suite" | sed -n 's/.*ok\. \([0-9]*\) passed.*/\1/p' | paste -sd+ | bc)
  failed=$(echo "$suite" | grep -c FAILED)
  mut=$( (cd $W && cargo test --offline -p pdf --test $name 2>&1 | grep -E "^test result" | head -1) )
  line="$id: without change: [$clean] | with change: suite passed=$passed (incl. demo file if it passes) failed_groups=$failed ; demo: [$mut]"
  echo "$line"; echo "$line" > $D/confirmed.txt
  rm -f $W/pdf/tests/$name.rs
done
cd / && git -C /repo worktree remove --force $W
