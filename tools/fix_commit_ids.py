#!/usr/bin/env python3
"""After cherry-picking a workspace's fix commits into /repo main, rewrites the commit ids recorded in
known_findings.json (and notes/*.md) from the workspace branch's ids to the ids on main (matched by subject)."""
import json, subprocess, re, glob
def git(*a):
    return subprocess.run(["git", "-C", "/repo", *a], capture_output=True, text=True)
main = {}
for line in git("log", "--format=%h %s", "main").stdout.splitlines():
    h, s = line.split(" ", 1)
    main.setdefault(s, h)
p = "/verif/known_findings.json"
j = json.load(open(p))
ren = {}
for f in j["findings"]:
    c = f.get("commit")
    if not c:
        continue
    if git("merge-base", "--is-ancestor", c, "main").returncode == 0:
        continue
    subj = git("show", "-s", "--format=%s", c).stdout.strip()
    if subj in main:
        ren[c] = main[subj]
    else:
        print("no commit on main for", c, subj[:60])
for f in j["findings"]:
    c = f.get("commit")
    if c in ren:
        f["commit"] = ren[c]
        if "line" in f:
            f["line"] = f["line"].replace(c, ren[c])
json.dump(j, open(p, "w"), indent=1)
MANUAL = {"10ba83d": "2c9993b", "b68d35c": "0c4cc90"}  # duplicates of a fix that another package had already landed
for f in j["findings"]:
    c = f.get("commit")
    if c in MANUAL:
        f["commit"] = MANUAL[c]; f["line"] = f.get("line", "").replace(c, MANUAL[c]); ren[c] = MANUAL[c]
json.dump(j, open(p, "w"), indent=1)
for n in glob.glob("/verif/notes/*.md") + glob.glob("/verif/claims/*.json") + ["/verif/hooks.json"]:
    s = open(n).read(); t = s
    for a, b in ren.items():
        t = t.replace(a, b)
    if t != s:
        open(n, "w").write(t)
print("renamed", ren)
