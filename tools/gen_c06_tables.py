#!/usr/bin/env python3
"""Prints the constant tables used by lean/PdfModel/Spec/Primitives.lean (MD5 sine table, SHA-2 round
constants and initial values from the fractional parts of square / cube roots of primes, the AES S-box from
the multiplicative inverse in GF(2^8) followed by the affine map). One-off generator, kept for provenance;
the tables are validated in Lean against published test vectors (Props/C06.lean, `#guard`s in the file)."""
import math

def primes(n):
    ps, k = [], 2
    while len(ps) < n:
        if all(k % p for p in ps): ps.append(k)
        k += 1
    return ps

def iroot(x, k):
    lo, hi = 0, 1
    while hi ** k <= x: hi *= 2
    while lo + 1 < hi:
        mid = (lo + hi) // 2
        if mid ** k <= x: lo = mid
        else: hi = mid
    return lo

def frac_root(p, k, bits):
    # floor(frac(p^(1/k)) * 2^bits)
    r = iroot(p << (bits * k), k)
    return r & ((1 << bits) - 1)

def lean_list(name, ty, vals, width):
    out = f"def {name} : Array {ty} := #[\n"
    line = "  "
    for i, v in enumerate(vals):
        tok = f"0x{v:0{width}x}" + ("," if i + 1 < len(vals) else "")
        if len(line) + len(tok) > 110:
            out += line.rstrip() + "\n"; line = "  "
        line += tok + " "
    out += line.rstrip() + "]\n"
    return out

print(lean_list("md5K", "UInt32", [int(abs(math.sin(i + 1)) * 2**32) & 0xffffffff for i in range(64)], 8))
P = primes(80)
print(lean_list("sha256K", "UInt32", [frac_root(p, 3, 32) for p in P[:64]], 8))
print(lean_list("sha256H", "UInt32", [frac_root(p, 2, 32) for p in P[:8]], 8))
print(lean_list("sha512K", "UInt64", [frac_root(p, 3, 64) for p in P[:80]], 16))
print(lean_list("sha512H", "UInt64", [frac_root(p, 2, 64) for p in P[:8]], 16))
print(lean_list("sha384H", "UInt64", [frac_root(p, 2, 64) for p in P[8:16]], 16))

def gmul(a, b):
    r = 0
    while b:
        if b & 1: r ^= a
        a <<= 1
        if a & 0x100: a ^= 0x11b
        b >>= 1
    return r
def ginv(a):
    if a == 0: return 0
    for b in range(1, 256):
        if gmul(a, b) == 1: return b
def rotl8(x, k): return ((x << k) | (x >> (8 - k))) & 0xff
sbox = []
for a in range(256):
    b = ginv(a)
    sbox.append(b ^ rotl8(b, 1) ^ rotl8(b, 2) ^ rotl8(b, 3) ^ rotl8(b, 4) ^ 0x63)
print(lean_list("aesSbox", "UInt8", sbox, 2))
