#!/usr/bin/env python3
"""Rewrites the generated regions of DESIGN.md (between <!-- BEGIN:x --> and <!-- END:x -->) from
known_findings.json, seeded/*/meta.json + seeded/results.json, claims/*.json and evidence/*.json."""
import json, os, re, glob
R = os.path.dirname(os.path.dirname(os.path.abspath(__file__)))
kf = json.load(open(os.path.join(R, "known_findings.json")))["findings"]

def esc(s): return str(s).replace("|", "\\|").replace("\n", " ")

fixed = [f for f in kf if f.get("status") == "fixed"]
openf = [f for f in kf if f.get("status") == "open"]
t_fixed = "| property | commit in /repo | what failed |\n|---|---|---|\n"
for f in sorted(fixed, key=lambda f: (f["property"], f.get("commit", ""))):
    what = re.sub(r"^fixed: property=\S+ \S+ ", "", f.get("line", ""))
    t_fixed += f"| {f['property']} | `{f.get('commit','')}` | {esc(what)} |\n"
t_open = "| property | signature (what the oracle classifies the failure as) | what fails |\n|---|---|---|\n"
for f in sorted(openf, key=lambda f: (f["property"], f.get("signature", ""))):
    t_open += f"| {f['property']} | `{f.get('signature','')}` | {esc(f.get('what',''))} |\n"

res = {}
rp = os.path.join(R, "seeded", "results.json")
if os.path.exists(rp):
    res = json.load(open(rp))
t_seed = "| seeded change | property | quick check | what it needs in order to manifest |\n|---|---|---|---|\n"
for d in sorted(glob.glob(os.path.join(R, "seeded", "*", "meta.json"))):
    sid = os.path.basename(os.path.dirname(d))
    m = json.load(open(d))
    props = m["property"] if isinstance(m["property"], list) else [m["property"]]
    for p in props:
        r = res.get(f"{sid}|{p}", {})
        out = r.get("outcome", "not run")
        if r.get("replay_kind"): out += f" — {r['replay_kind']}"
        t_seed += f"| {sid} | {p} | {out} | {esc(m.get('needs', m.get('breaks', '')))[:400]} |\n"

t_claims = "| property | theorems (audited) | correspondence streams / cases | oracle cases | quick wall s |\n|---|---|---|---|---|\n"
for c in sorted(glob.glob(os.path.join(R, "claims", "*.json"))):
    pid = os.path.basename(c)[:-5]
    ev = os.path.join(R, "evidence", pid + ".json")
    if os.path.exists(ev):
        e = json.load(open(ev)); cv = e["coverage"]
        t_claims += f"| {pid} | {cv.get('discharged')}/{cv.get('obligations')} | {len(cv.get('streams', []))} / {sum(s['cases'] for s in cv.get('streams', []))} | {sum(o['cases'] for o in cv.get('oracles', []))} | {e.get('wall_s')} |\n"
    else:
        t_claims += f"| {pid} | (no evidence yet) | | | |\n"

t_built = ""
for c in sorted(glob.glob(os.path.join(R, "claims", "*.json"))):
    pid = os.path.basename(c)[:-5]
    cl = json.load(open(c))
    ev = os.path.join(R, "evidence", pid + ".json")
    thms = []
    streams = []
    oracles = []
    if os.path.exists(ev):
        cv = json.load(open(ev))["coverage"]
        thms = [t["name"].split(".")[-1] for t in cv.get("theorems", [])]
        streams = [s_["name"] + ("" if s_["in_domain"] else " (out of domain: drift only)") for s_ in cv.get("streams", [])]
        oracles = [o["name"] for o in cv.get("oracles", [])]
    t_built += f"**{pid}** (as built; narrative and mutant tables in `notes/{pid}.md`)\n\n"
    t_built += f"* what the check gives: {cl.get('text','')}\n"
    t_built += f"* trusted base / modelled rather than verified: {cl.get('note','')}\n"
    t_built += f"* theorems in `Props/{pid}.lean` ({len(thms)}): " + ", ".join(f"`{t}`" for t in thms) + "\n"
    t_built += f"* correspondence streams: " + (", ".join(f"`{x}`" for x in streams) or "—") + "\n"
    t_built += f"* oracles on the implementation: " + (", ".join(f"`{x}`" for x in oracles) or "—") + "\n\n"
t_ben = "| rewrite | property | quick check | detail when it alarmed |\n|---|---|---|---|\n"
bp = os.path.join(R, "seeded-benign", "results.json")
if os.path.exists(bp):
    br = json.load(open(bp))
    for k in sorted(br):
        v = br[k]
        t_ben += f"| {k} | {v['property']} | {v['outcome']} | {esc(v.get('detail',''))[:260]} |\n"
tot_thm = 0
for c in glob.glob(os.path.join(R, "evidence", "C*.json")):
    tot_thm += json.load(open(c))["coverage"].get("discharged", 0)
caught = sum(1 for v in res.values() if v.get("outcome", "").startswith("caught"))
br_ = json.load(open(bp)) if os.path.exists(bp) else {}
t_sum = (f"* {len(glob.glob(os.path.join(R, 'claims', '*.json')))} of 20 properties claimed (`not_applicable` is empty); "
         f"{tot_thm} kernel-checked property theorems (every one audited: `propext`, `Classical.choice`, `Quot.sound` at most), "
         f"{len(glob.glob(os.path.join(R, 'lean', 'PdfModel', '*', '*.lean')))} Lean modules.\n"
         f"* {len(fixed)} repairs of genuine defects committed to /repo as `fix:` commits (listed in §1a), {len(openf)} open findings with deterministic witnesses, "
         f"2 add-only hook commits guarded by `cfg(pdf_rs_pdf_verif)`.\n"
         f"* {len(res)} seeded regressions by independent agents in two rounds: all caught by the registered quick check "
         f"({sum(1 for v in res.values() if 'when seeded' in v.get('outcome',''))} of them were caught when seeded and no longer apply / no longer break anything on the final tree because a later repair changed the same code; see the table in §6b); "
         f"{sum(1 for v in br_.values() if v['outcome'].startswith('quiet'))} of {len(br_)} behaviour-preserving rewrites leave the checks quiet "
         f"({sum(1 for v in br_.values() if 'does not apply' in v['outcome'])} no longer applies).\n")
regions = {"summary": t_sum, "benign": t_ben, "fixed": t_fixed, "open": t_open, "seeded": t_seed, "claims": t_claims, "asbuilt": t_built}
p = os.path.join(R, "DESIGN.md")
s = open(p).read()
for k, v in regions.items():
    pat = re.compile(rf"(<!-- BEGIN:{k} -->\n).*?(<!-- END:{k} -->)", re.S)
    if pat.search(s):
        s = pat.sub(lambda m: m.group(1) + v + m.group(2), s)
    else:
        print("region missing in DESIGN.md:", k)
open(p, "w").write(s)
print("DESIGN.md tables regenerated:", {k: v.count("\n") - 2 for k, v in regions.items()})
