#!/usr/bin/env python3
"""Runs the registered quick checks against every behaviour-preserving rewrite under seeded-benign/<id>/:
the patch is applied to the repository under test (ROOT/repo), `./check Cnn --tier quick` must exit 0.
Writes seeded-benign/results.json and RESULTS.md. Usage: tools/run_benign.py [id ...]"""
import json, os, subprocess, sys, time
ROOT = os.path.dirname(os.path.dirname(os.path.abspath(__file__)))
REPO = os.path.realpath(os.path.join(ROOT, "repo")) if os.path.lexists(os.path.join(ROOT, "repo")) else "/repo"
B = os.path.join(ROOT, "seeded-benign")
def sh(cmd, cwd=None, timeout=None):
    p = subprocess.run(cmd, cwd=cwd, stdout=subprocess.PIPE, stderr=subprocess.STDOUT, text=True, timeout=timeout)
    return p.returncode, p.stdout
ids = sys.argv[1:] or sorted(d for d in os.listdir(B) if os.path.isdir(os.path.join(B, d)))
rc, out = sh(["git", "status", "--porcelain", "--untracked-files=no"], cwd=REPO)
if out.strip():
    print("refusing: repository under test has uncommitted changes"); sys.exit(2)
rp = os.path.join(B, "results.json")
allr = json.load(open(rp)) if os.path.exists(rp) else {}
for sid in ids:
    d = os.path.join(B, sid)
    prop = json.load(open(os.path.join(d, "meta.json")))["property"]
    patch = os.path.join(d, "patch.diff")
    rc, out = sh(["git", "apply", "--check", patch], cwd=REPO)
    if rc != 0:
        allr[sid] = {"id": sid, "property": prop, "outcome": "patch does not apply", "detail": out.strip()[:200]}; print(sid, "patch does not apply"); continue
    sh(["git", "apply", patch], cwd=REPO)
    try:
        t0 = time.time()
        try:
            rc, out = sh([os.path.join(ROOT, "check"), prop, "--tier", "quick"], cwd=ROOT, timeout=3600)
        except subprocess.TimeoutExpired:
            rc, out = -1, "timeout"
        vio = [l for l in out.splitlines() if l.startswith("VIOLATION")]
        detail = ""
        if vio:
            try:
                rpath = vio[0].split("replay=")[1].split()[0]
                j = json.load(open(rpath))
                detail = (j.get("kind", "") + ": " + json.dumps(j.get("obligations_broken") or j.get("disagreement") or j.get("what") or j.get("signature"))[:300])
            except Exception as e:
                detail = vio[0][:200]
        outcome = "quiet (exit 0)" if rc == 0 else ("ALARM (exit 1)" if rc == 1 else f"exit {rc}: {out.strip()[-150:]}")
        allr[sid] = {"id": sid, "property": prop, "outcome": outcome, "detail": detail, "wall_s": round(time.time() - t0, 1),
                     "verif_commit": sh(["git", "rev-parse", "--short", "HEAD"], cwd=ROOT)[1].strip()}
        print(sid, outcome, detail[:160])
    finally:
        sh(["git", "checkout", "--", "."], cwd=REPO)
        sh(["git", "clean", "-fdq", "--", "pdf", "pdf_derive", "examples"], cwd=REPO)
    json.dump(allr, open(rp, "w"), indent=1, sort_keys=True)
sh(["git", "checkout", "--", "evidence", "lean/PdfModel/Generated"], cwd=ROOT)
with open(os.path.join(B, "RESULTS.md"), "w") as f:
    f.write("# Behaviour-preserving rewrites versus the registered quick checks (must stay quiet)\n\n| rewrite | property | outcome | detail | wall s | verif |\n|---|---|---|---|---|---|\n")
    for k in sorted(allr):
        r = allr[k]
        f.write(f"| {r['id']} | {r['property']} | {r['outcome']} | {str(r.get('detail','')).replace('|','/')[:200]} | {r.get('wall_s','')} | {r.get('verif_commit','')} |\n")
print("written seeded-benign/RESULTS.md")
