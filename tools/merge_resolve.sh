#!/bin/sh
# resolves the expected conflicts of a workspace merge: known_findings.json (union of entries), MANIFEST.json
# (regenerated), evidence/*.json of other properties (ours)
cd /verif
if git ls-files -u | grep -q known_findings.json; then
python3 - <<'PY'
import json, subprocess
def stage(n): return json.loads(subprocess.check_output(["git","show",f":{n}:known_findings.json"]))
ours, theirs = stage(2), stage(3)
seen = [json.dumps(f, sort_keys=True) for f in ours["findings"]]
for f in theirs["findings"]:
    if json.dumps(f, sort_keys=True) not in seen:
        ours["findings"].append(f)
ret = {(r["property"], r["signature"]) for r in ours.get("retired_open_signatures", [])}
ours["findings"] = [f for f in ours["findings"] if not (f.get("status") == "open" and (f["property"], f.get("signature")) in ret)]
json.dump(ours, open("known_findings.json","w"), indent=1)
print("known_findings merged:", len(ours["findings"]), "entries")
PY
fi
for f in $(git ls-files -u | awk '{print $4}' | sort -u | grep '^evidence/'); do git checkout --ours -- $f; done
python3 mkmanifest.py
if grep -rlE '^(<<<<<<<|>>>>>>>) ' lean/PdfModel harness/src claims notes translator.json 2>/dev/null; then echo 'UNRESOLVED CONFLICT MARKERS in the files above'; exit 1; fi
git add -A
git ls-files -u | awk '{print $4}' | sort -u
